"""C02 - stacked subsets, concats and wrappers address the right underlying sample."""
import numpy as np
import torch
from hypothesis import strategies as st

from vlib import stacks as S
from vlib.core import Case, Facet, Refused, Violation

# thorough-tier budgets of every facet are multiplied by this factor (sized for ~5-8 min on 16 cores)
THOROUGH_SCALE = 8
LEVEL = "exploration"
RULE = ("recursive stack specs (depth<=5) over recognisable token roots: KDSubset with arbitrary index lists (repeats, "
        "negatives, empty; list/ndarray/tensor), shipped subset wrappers, KDConcatDataset (1-3 parts, balanced or not), harness "
        "and shipped KDWrappers; oracle = index-map composition computed from the spec; every valid index k (positive and "
        "negative) and items x/aux/class are compared, then len, getall_* vs per-sample, getall helpers, and introspection on "
        "linear chains; non-trivial = depth>=3 with >=2 layer kinds, or a multi-part concat combined with a subset, or a negative "
        "index through >=2 remapping layers; distinct = distinct spec hash")
ASSUMPTIONS = ["roots return recognisable tokens ('x', root_id, j); class labels are a pure function of the spec",
               "subset index lists are clipped to [-len(child), len(child)) (what torch's Subset requires)"]

ITEMS = ("x", "aux", "class")


def _eq(a, b):
    if torch.is_tensor(a):
        a = a.tolist()
    if isinstance(a, np.ndarray):
        a = a.tolist()
    if isinstance(a, np.generic):
        a = a.item()
    if isinstance(a, (list, tuple)) and isinstance(b, (list, tuple)):
        return len(a) == len(b) and all(_eq(x, y) for x, y in zip(a, b))
    return a == b


def nontrivial(spec, ref):
    ks = S.kinds(spec)
    d = S.depth(spec)
    layer_kinds = ks - {"root"}
    multi_concat = _has(spec, lambda s: s["t"] == "concat" and len(s["children"]) > 1)
    has_subset = bool(ks & {"subset", "shipped_subset"})
    remaps = _count(spec, lambda s: s["t"] in ("subset", "shipped_subset", "concat"))
    return (d >= 3 and len(layer_kinds) >= 2) or (multi_concat and has_subset) or remaps >= 2


def _has(spec, pred):
    if pred(spec):
        return True
    if spec["t"] == "concat":
        return any(_has(c, pred) for c in spec["children"])
    if spec["t"] == "root":
        return False
    return _has(spec["child"], pred)


def _count(spec, pred):
    n = 1 if pred(spec) else 0
    if spec["t"] == "concat":
        return n + max(_count(c, pred) for c in spec["children"])
    if spec["t"] == "root":
        return n
    return n + _count(spec["child"], pred)


def check(spec):
    try:
        ds, ref = S.build(spec)
    except S.ShippedCtorRefused as e:
        raise Refused("shipped subset constructor: " + str(e))
    except NotImplementedError as e:
        raise Violation("layer-unconstructible:NotImplementedError", str(e)[:200])
    balanced = spec["t"] == "concat" and spec.get("balanced")
    evals = 0
    if balanced:
        P = len(spec["children"])
        mx = max(S.ref_len(c) for c in ref["children"])
        if min(S.ref_len(c) for c in ref["children"]) == 0:
            raise Refused("balanced concat with an empty part")
        idxs = list(range(0, 3 * mx * P))
        n = None
        try:
            len(ds)
            raise Violation("balanced-len-not-refused", "len() of a balanced concat returned")
        except AssertionError:
            pass
    else:
        n = S.ref_len(ref)
        try:
            got_n = len(ds)
        except Exception as e:
            raise Violation("len-raises:" + type(e).__name__, str(e)[:200])
        if got_n != n:
            raise Violation("len-differs", f"len(stack)={got_n}, size of the composed map={n}")
        idxs = list(range(-n, n))
    for item in ITEMS:
        fn = getattr(ds, f"getitem_{item}")
        for k in idxs:
            exp = S.ref_item(ref, item, k)
            try:
                # the index parameter is called idx in every getitem_* signature of the library: both call forms address the same sample
                got = fn(idx=k) if k % 3 == 0 else fn(k)
            except Exception as e:
                raise Violation(f"getitem-raises:{type(e).__name__}:{'neg' if k < 0 else 'pos'}",
                                f"getitem_{item}({k}) raised {e!r}"[:300])
            evals += 1
            if not _eq(got, exp):
                raise Violation(f"wrong-sample:{'neg' if k < 0 else 'pos'}:{spec['t']}",
                                f"getitem_{item}({k}) = {got!r}, composed map says {exp!r}")
    labels = [spec["t"], "depth=%d" % S.depth(spec)]
    if balanced:
        labels.append("balanced")
        return Case(nontrivial(spec, ref), labels, evals)
    # out-of-range indices must not silently resolve to a sample of a *different* position
    # bulk accessors (two passes: a layer that writes into a list handed out by a lower layer shows up in the second)
    for item in ITEMS + ITEMS:
        exp_all = [S.ref_item(ref, item, k) for k in range(n)]
        try:
            got_all = getattr(ds, f"getall_{item}")()
        except AssertionError:
            labels.append("getall-refused-by-assert")
            continue
        except Exception as e:
            raise Violation(f"getall-raises:{type(e).__name__}", f"getall_{item}() raised {e!r}"[:300])
        if not _eq(got_all, exp_all):
            raise Violation("bulk!=per-sample", f"getall_{item}()={_short(got_all)} per-sample={_short(exp_all)}")
        evals += 1
    from kappadata.utils.getall_as_tensor import getall, getall_as_list, getall_as_numpy, getall_as_tensor
    exp_cls = [S.ref_item(ref, "class", k) for k in range(n)]
    for name, fn in (("getall", getall), ("getall_as_list", getall_as_list), ("getall_as_numpy", getall_as_numpy),
                     ("getall_as_tensor", getall_as_tensor)):
        try:
            got = fn(ds, item="class")
        except AssertionError:
            labels.append("helper-refused-by-assert")
            continue
        except Exception as e:
            raise Violation(f"helper-raises:{name}:{type(e).__name__}", f"{name}(stack) raised {e!r}"[:300])
        if name == "getall_as_list" and not isinstance(got, list):
            raise Violation("helper-type:getall_as_list", str(type(got)))
        if name == "getall_as_numpy" and not isinstance(got, np.ndarray):
            raise Violation("helper-type:getall_as_numpy", str(type(got)))
        if name == "getall_as_tensor" and not torch.is_tensor(got):
            raise Violation("helper-type:getall_as_tensor", str(type(got)))
        if not _eq(got, exp_cls):
            raise Violation(f"helper-differs:{name}", f"{_short(got)} vs {_short(exp_cls)}")
        evals += 1
    # copies of the stack (copy.copy / deepcopy / a pickle round trip - what spawn-started workers receive) address the same samples
    import copy
    import pickle
    for how in ("copy", "deepcopy", "pickle"):
        try:
            if how == "pickle":
                try:
                    blob = pickle.dumps(ds)
                except (pickle.PicklingError, AttributeError, TypeError):
                    labels.append("not-picklable")  # harness layers built from local classes
                    continue
                clone = pickle.loads(blob)
            else:
                clone = getattr(copy, how)(ds)
            if len(clone) != n:
                raise Violation(f"clone-differs:{how}:len", f"{len(clone)} vs {n}")
            for item in ITEMS:
                for k in ([0, n - 1, -1] if n else []):
                    got = getattr(clone, f"getitem_{item}")(k)
                    if not _eq(got, S.ref_item(ref, item, k)):
                        raise Violation(f"clone-differs:{how}", f"getitem_{item}({k}) of the clone = {got!r}, composed map says {S.ref_item(ref, item, k)!r}")
        except Violation:
            raise
        except AssertionError:
            labels.append("clone-refused-by-assert")
        except Exception as e:
            raise Violation(f"clone-raises:{how}:{type(e).__name__}", f"{e!r}"[:300])
        evals += 1
    # a shallow copy of a concat that was already used is switched to balanced sampling (public attribute): the copy follows its own
    # configuration, the original keeps its own
    if spec["t"] == "concat" and len(spec["children"]) >= 2 and all(S.ref_len(c) > 0 for c in ref["children"]):
        clone = copy.copy(ds)
        clone.balanced_sampling = True
        ref_b = dict(ref, spec=dict(ref["spec"], balanced=True))
        P_, mx_ = len(spec["children"]), max(S.ref_len(c) for c in ref["children"])
        for k in range(0, 2 * mx_ * P_):
            got_c, exp_c = clone.getitem_x(k), S.ref_item(ref_b, "x", k)
            if not _eq(got_c, exp_c):
                raise Violation("re-configured-shallow-copy-of-a-concat-keeps-the-old-map", f"getitem_x({k}) of the copy (balanced sampling switched on) = {got_c!r}, "
                                                                                           f"round-robin map says {exp_c!r}")
        for k in range(n):
            if not _eq(ds.getitem_x(k), S.ref_item(ref, "x", k)):
                raise Violation("re-configuring-a-shallow-copy-changes-the-original-concat", f"getitem_x({k})")
        labels.append("copy-rebalanced")
    # a subset layer is re-configured after use (its public `indices` is re-assigned): accessors obtained before - a ModeWrapper keeps
    # them from its constructor on - follow the new indices like freshly looked-up ones
    node = ref
    while node["t"] not in ("root", "concat") and not (node["t"] == "subset" and type(node["obj"]).__name__ == "KDSubset"):
        node = node["child"]
    if node["t"] == "subset" and len(node["indices"]) >= 2:
        kept = {item: getattr(ds, f"getitem_{item}") for item in ITEMS}
        new_idx = list(node["indices"])[::-1]
        node["obj"].indices = list(new_idx)
        node["indices"] = new_idx
        for item in ITEMS:
            for k in range(n):
                exp = S.ref_item(ref, item, k)
                got_kept, got_fresh = kept[item](k), getattr(ds, f"getitem_{item}")(k)
                if not _eq(got_fresh, exp):
                    raise Violation("re-assigned-indices-not-followed", f"getitem_{item}({k}) = {got_fresh!r} after re-assigning a layer's indices, composed map says {exp!r}")
                if not _eq(got_kept, exp):
                    raise Violation("kept-accessor-is-stale-after-re-assigning-indices", f"an accessor obtained before the re-assignment returns {got_kept!r} for {k}, a fresh one {got_fresh!r}")
        labels.append("reindexed")
        evals += 1
    # dispose reaches every root and every layer that owns a resource, also through concats with several parts
    objs = S.all_objects(ref)
    roots = [o for o in objs if isinstance(o, S.TokenRoot)]
    owners = [o for o in objs if type(o) is S.PassWrapper]
    before_r = [r.disposed for r in roots]
    before_o = [o.__dict__.get("disposed_here", 0) for o in owners]
    ds.dispose()
    if [r.disposed for r in roots] != [b + 1 for b in before_r]:
        raise Violation("dispose-does-not-reach-every-root", f"{[r.disposed - b for r, b in zip(roots, before_r)]} disposals for {len(roots)} roots")
    if [o.__dict__.get("disposed_here", 0) for o in owners] != [b + 1 for b in before_o]:
        raise Violation("dispose-skips-a-layer", f"{[o.__dict__.get('disposed_here', 0) - b for o, b in zip(owners, before_o)]} for {len(owners)} resource-owning layers")
    # introspection on linear chains
    if S.is_linear(ref):
        layers, root = S.linear_layers(ref)
        labels.append("linear")
        if ds.root_dataset is not root:
            raise Violation("introspection:root_dataset", "root_dataset is not the root object")
        top_is_concat = spec["t"] == "concat"
        aw = ds.all_wrappers
        if len(aw) != len(layers) or any(a is not b for a, b in zip(aw, layers)):
            raise Violation("introspection:all_wrappers", f"{[type(a).__name__ for a in aw]} vs "
                                                          f"{[type(a).__name__ for a in layers]}")
        if ds.all_wrapper_types != [type(l) for l in layers]:
            raise Violation("introspection:all_wrapper_types", str(ds.all_wrapper_types))
        for T in {type(l) for l in layers} | {S.PassWrapper2, S.TagWrapper}:
            exp_w = [l for l in layers if type(l) == T]
            got_w = ds.get_wrappers_of_type(T)
            if len(got_w) != len(exp_w) or any(a is not b for a, b in zip(got_w, exp_w)):
                raise Violation("introspection:get_wrappers_of_type", T.__name__)
            if ds.has_wrapper_type(T) != bool(exp_w):
                raise Violation("introspection:has_wrapper_type", T.__name__)
            if len(exp_w) <= 1:
                g = ds.get_wrapper_of_type(T)
                if (g is None) != (not exp_w) or (exp_w and g is not exp_w[0]):
                    raise Violation("introspection:get_wrapper_of_type", T.__name__)
        for l in layers:
            if not ds.has_wrapper(l):
                raise Violation("introspection:has_wrapper", type(l).__name__)
        if ds.has_wrapper(S.PassWrapper(root)):
            raise Violation("introspection:has_wrapper-false-positive", "")
        if ds.getshape_class() != (root.C,) or ds.getshape_x() != root.getshape_x():
            raise Violation("introspection:getshape", str(ds.getshape_class()))
        if not top_is_concat and layers:
            if ds.getdim_class() != root.C:
                raise Violation("introspection:getdim", str(ds.getdim_class()))
            for nm, exp_dim in (("target", 7 + root.root_id), ("embedding", 3), ("coarse_class", 5 + root.root_id)):
                try:
                    got_dim = getattr(ds, f"getdim_{nm}")()
                except Exception as e:
                    raise Violation(f"introspection:getdim-alias-raises:{type(e).__name__}", f"getdim_{nm}(): {e!r}"[:200])
                if got_dim != exp_dim:
                    raise Violation("introspection:getdim-alias", f"getdim_{nm}() = {got_dim}, getshape_{nm}() = {(exp_dim,)}")
        if ds.custom_attribute != ("attr", root.root_id):
            raise Violation("introspection:attribute-delegation", str(ds.custom_attribute))
        before = root.disposed
        ds.dispose()
        if root.disposed != before + 1:
            raise Violation("introspection:dispose", f"root disposed {root.disposed - before} times")
        with ds as d2:
            if d2 is not ds:
                raise Violation("introspection:context-manager", "__enter__ returned another object")
        if root.disposed != before + 2:
            raise Violation("introspection:context-manager-dispose", "")
        evals += 1
    return Case(nontrivial(spec, ref), labels, evals)


def _short(x):
    s = repr(x if not torch.is_tensor(x) else x.tolist())
    return s[:160]


def check_slowpath(spec):
    """roots without a bulk accessor under pure wrapper chains: helpers must fall back to per-sample loading"""
    ds, ref = S.build(spec)
    n = S.ref_len(ref)
    from kappadata.utils.getall_as_tensor import getall, getall_as_list, getall_as_numpy, getall_as_tensor
    exp = [S.ref_item(ref, "class", k) for k in range(n)]
    has_subset = _has(spec, lambda s_: s_["t"] == "subset")
    refusals = 0
    for name, fn in (("getall", getall), ("getall_as_list", getall_as_list), ("getall_as_numpy", getall_as_numpy),
                     ("getall_as_tensor", getall_as_tensor)):
        try:
            got = fn(ds, item="class")
        except Exception as e:
            if has_subset:
                # a subset announces every getall_<item> and fails when the layers below cannot serve it: a refusal, not a wrong answer
                refusals += 1
                continue
            raise Violation(f"slowpath-raises:{name}:{type(e).__name__}", repr(e)[:200])
        if not _eq(got, exp):
            raise Violation(f"slowpath-differs:{name}", f"{_short(got)} vs {_short(exp)}")
    expx = [S.ref_item(ref, "x", k) for k in range(n)]
    try:
        gotx = getall(ds, item="x")
    except Exception as e:
        if not has_subset:
            raise Violation(f"slowpath-raises:getall-x:{type(e).__name__}", repr(e)[:200])
        gotx = None
    if gotx is not None and not _eq(gotx, expx):
        raise Violation("slowpath-differs:x", f"{_short(gotx)} vs {_short(expx)}")
    return Case(S.depth(spec) >= 1, ["depth=%d" % S.depth(spec)], 5)


def check_concat_normalises(spec):
    """a concat resolves negative indices itself (k counts from the end of the WHOLE concat) before it picks the part: parts need no negative
    indexing of their own - also a single part, also through pass-through wrappers below and above the concat"""
    from kappadata.datasets import KDConcatDataset
    parts, sizes = [], []
    for pid_, (n_, wraps) in enumerate(spec["parts"]):
        r = S.TokenRoot(pid_, n_, 3, "list", 0, False)
        r.strict_neg = True
        d = r
        for _ in range(wraps):
            d = S.PassWrapper2(d)
        parts.append(d)
        sizes.append(n_)
    ds = KDConcatDataset(parts)
    for _ in range(spec["above"]):
        ds = S.PassWrapper2(ds)
    N = sum(sizes)
    if len(ds) != N:
        raise Violation("concat:len", f"{len(ds)} vs {N}")
    flat = [(pid_, j) for pid_, n_ in enumerate(sizes) for j in range(n_)]
    for k in range(-N, N):
        exp = ("x",) + flat[k]
        try:
            got = ds.getitem_x(k)
        except Exception as e:
            raise Violation(f"concat-hands-a-negative-index-to-its-part:{'single' if len(sizes) == 1 else 'multi'}", f"getitem_x({k}) over parts {sizes}: {e!r}"[:200])
        if got != exp:
            raise Violation("concat:wrong-sample", f"getitem_x({k}) = {got!r}, expected {exp!r}")
    for k in (N, -N - 1):
        try:
            got = ds.getitem_x(k)
        except Exception:
            continue
        raise Violation("concat:out-of-range-index-answered", f"getitem_x({k}) over {N} samples returned {got!r}")
    return Case(True, ["parts=%d" % len(sizes)], 2 * N)


CONCATN = st.fixed_dictionaries({"parts": st.lists(st.tuples(st.integers(1, 6), st.integers(0, 2)), min_size=1, max_size=3), "above": st.integers(0, 2)})


@st.composite
def slow_spec(draw):
    s = draw(S.root_spec(with_bulk=False))
    n = s["n"]
    for _ in range(draw(st.integers(0, 4))):
        if draw(st.integers(0, 2)) == 0 and n > 0:
            # index-changing layers above a root without bulk accessors: the helpers' per-sample fallback must follow them
            idx = draw(st.lists(st.integers(0, n - 1), min_size=1, max_size=6))
            s = {"t": "subset", "indices": idx, "as": draw(st.sampled_from(["list", "numpy", "tensor", "tuple"])), "child": s}
            n = len(idx)
        else:
            s = {"t": "wrap", "kind": draw(st.sampled_from(["pass", "pass2"])), "wid": draw(st.integers(0, 9)), "child": s}
    return s


FACETS = [
    Facet("stacks", check, strategy=lambda tier: S.stack_spec(max_depth=5),
          budget={"quick": 3000, "thorough": 40000}, shards={"quick": 8, "thorough": 16},
          min_nontrivial={"quick": 400, "thorough": 4000}),
    Facet("deep-stacks", check, strategy=lambda tier: S.stack_spec(max_depth=8, allow_shipped=False),
          budget={"quick": 600, "thorough": 8000}, shards={"quick": 4, "thorough": 8},
          min_nontrivial={"quick": 100, "thorough": 1000}),
    Facet("concat-normalises-negative-indices", check_concat_normalises, strategy=lambda tier: CONCATN,
          budget={"quick": 300, "thorough": 3000}, shards={"quick": 1, "thorough": 2}, min_nontrivial={"quick": 50, "thorough": 300}),
    Facet("slowpath", check_slowpath, strategy=lambda tier: slow_spec(),
          budget={"quick": 300, "thorough": 3000}, shards={"quick": 1, "thorough": 4},
          min_nontrivial={"quick": 50, "thorough": 300}),
]
