"""C09 - every dataloader worker gets its own reproducible augmentation stream."""
import copy
import hashlib
import os
import random
import shutil
import tempfile
from functools import partial

import numpy as np
import torch
from hypothesis import strategies as st

from checks import c08_seeded_wrappers as c08
from kappadata.datasets import KDConcatDataset, KDDataset, KDSubset, KDWrapper
from vlib import treg
from vlib.core import Case, Facet, Refused, Violation

# thorough-tier budgets of every facet are multiplied by this factor (sized for ~5-8 min on 16 cores)
THOROUGH_SCALE = 5
LEVEL = "exploration"
RULE = ("spec = dataset stack (transform / multi-view / semseg / MUGS / BYOL wrappers with registry transform compositions incl. "
        "scheduled, KDImageFolder with a transform over a 4-image folder, roots with registered collators (mix, DINO mask, I-JEPA "
        "mask, padding); topped by pass wrappers / KDSubset / KDConcatDataset / ModeWrapper / the interleaved scheduler's concat "
        "dataset) + two distinct worker seeds + rank; oracle = simulated workers (deep copy - or an identical rebuild where a member "
        "cannot be deep-copied - then np.random.seed(worker_seed) and the dataset's worker_init_fn): every numpy Generator reachable "
        "by a generic object-graph walk must differ between the two worker seeds, no generator state of one worker may occur in the "
        "other, and the same worker seed must reproduce every state; thorough tier validates the simulation against real DataLoader "
        "workers; non-trivial = >=2 reachable generators at different depths, or a stochastic member below a composite, or "
        "registered collators; distinct = distinct spec hash")
ASSUMPTIONS = ["a forked/pickled worker copy is modelled by copy.deepcopy (checked against real workers in the thorough tier)",
               "torch.utils.data.get_worker_info() is None in simulated workers (num_workers=1 for scheduled transforms)"]

HOOK_KW = dict(batch_size=4, updates=10)
WORK = os.path.join(os.path.dirname(os.path.dirname(os.path.abspath(__file__))), ".work")


class CollRoot(c08.ImgRoot):
    def __init__(self, n, key, fam, collators):
        KDDataset.__init__(self, collators=collators)
        self.n, self.key, self.fam, self.C = n, key, fam, 4


class PropCollRoot(c08.ImgRoot):
    """a root that supplies its collators by overriding the public `collators` property instead of passing them to __init__"""

    def __init__(self, n, key, fam, collators):
        KDDataset.__init__(self)
        self.n, self.key, self.fam, self.C = n, key, fam, 4
        self.my_collators = collators

    @property
    def collators(self):
        return self.my_collators


def make_collators(names):
    import kappadata.collators as KC
    out = []
    for nm in names:
        if nm == "mix":
            out.append(KC.KDMixCollator(mixup_alpha=0.8, cutmix_alpha=1.0, mixup_p=0.5, cutmix_p=0.5))
        elif nm == "dino":
            out.append(KC.KDDinoMaskCollator(mask_ratio=(0.1, 0.5), mask_prob=0.5, mask_size=(4, 4)))
        elif nm == "ijepa":
            out.append(KC.KDIjepaMaskCollator(input_size=32, patch_size=4, num_enc_masks=1, num_pred_masks=2))
        elif nm == "pad":
            out.append(KC.PadSequencesCollator())
        elif nm == "compose":
            # composite collators own no generator themselves, they only forward set_rng to their members
            out.append(KC.KDComposeCollator([KC.KDMixCollator(mixup_alpha=0.8, mixup_p=1.0),
                                             KC.KDDinoMaskCollator(mask_ratio=(0.1, 0.5), mask_prob=0.5, mask_size=(4, 4))],
                                            dataset_mode="x class", return_ctx=True))
        elif nm == "wrapper":
            out.append(KC.KDSingleCollatorWrapper(KC.KDMixCollator(mixup_alpha=0.8, mixup_p=1.0), dataset_mode="x class"))
        elif nm == "mae":
            from kappadata.common.collators.mae_finetune_mix_collator import MAEFinetuneMixCollator
            out.append(MAEFinetuneMixCollator())
    return out


def build(spec, tmpdir):
    w = spec["w"]
    kind = w["kind"]
    if kind == "imagefolder":
        from kappadata.common.datasets.kd_image_folder import KDImageFolder
        ds = KDImageFolder(tmpdir, transform=treg.build(w["t"]))
    elif kind == "collators_only":
        ds = (PropCollRoot if w.get("via") == "property" else CollRoot)(w["n"], w["key"], "img3", make_collators(w["collators"]))
    elif kind == "multiview_pair":
        # one list of view configs handed to an unseeded (train) and a seeded (eval) multi-view wrapper that live side by side
        import kappadata.wrappers as W
        cfgs = [(c["n_views"], treg.build(c["t"])) for c in w["configs"]]
        train = W.KDMultiViewWrapper(c08.ImgRoot(w["n"], w["key"], "img3"), configs=cfgs, seed=None)
        evalw = W.KDMultiViewWrapper(c08.ImgRoot(w["n"], w["key"] + 1, "img3"), configs=cfgs, seed=5)
        ds = KDConcatDataset([train, evalw])
    else:
        ds = c08.build_stack(w)
        if w.get("collators"):
            # register collators on the root
            root = ds.root_dataset
            root._collators = make_collators(w["collators"])
    for layer in spec.get("top", []):
        if layer == "pseudo":
            # dynamically sampled pseudo labels (unseeded top-k sampling) above the stack
            from kappadata.wrappers import KDPseudoLabelWrapper
            try:
                C = ds.getdim_class()
                table = torch.tensor(np.random.default_rng(3).random((len(ds), C)), dtype=torch.float32)
                ds = KDPseudoLabelWrapper(ds, pseudo_labels=table, topk=2, tau=1.0, seed=None)
            except Exception:
                pass  # stacks without class labels
        elif layer == "pass":
            ds = c08.PassW(ds)
        elif layer == "subset":
            ds = KDSubset(ds, list(range(len(ds)))[::-1])
        elif layer in ("concat", "concat_rev"):
            from kappadata.transforms import KDRandomHorizontalFlip
            from kappadata.wrappers import XTransformWrapper
            other = XTransformWrapper(c08.ImgRoot(2, 1, "img"), transform=KDRandomHorizontalFlip(p=0.5))
            ds = KDConcatDataset([ds, other] if layer == "concat" else [other, ds])
        elif layer == "concat_shared":
            # two differently augmented views of one and the same root object, concatenated
            from kappadata.transforms import KDRandomHorizontalFlip
            from kappadata.wrappers import XTransformWrapper
            try:
                shared_root = ds.root_dataset
            except Exception:
                shared_root = c08.ImgRoot(2, 1, "img")
            other = XTransformWrapper(shared_root, transform=KDRandomHorizontalFlip(p=0.5))
            ds = KDConcatDataset([ds, other])
        elif layer == "mode":
            from kappadata.wrappers import ModeWrapper
            ds = ModeWrapper(ds, mode="x", return_ctx=False)
        elif layer == "interleaved":
            from kappadata.samplers import InterleavedSampler, InterleavedSamplerConfig
            from kappadata.transforms import KDRandomHorizontalFlip
            from kappadata.wrappers import XTransformWrapper
            # interleaved datasets: one over its own root, one with its own stochastic stack over the main dataset's root
            # (e.g. test-time augmentation of the training data)
            other = XTransformWrapper(c08.ImgRoot(3, 2, "img"), transform=KDRandomHorizontalFlip(p=0.5))
            cfgs = [InterleavedSamplerConfig(sampler=torch.utils.data.SequentialSampler(other), every_n_epochs=1)]
            try:
                shared = XTransformWrapper(ds.root_dataset, transform=KDRandomHorizontalFlip(p=0.5))
                cfgs.append(InterleavedSamplerConfig(sampler=torch.utils.data.SequentialSampler(shared), every_n_epochs=1))
            except Exception:
                pass
            s = InterleavedSampler(main_sampler=torch.utils.data.SequentialSampler(ds), batch_size=1, configs=cfgs, epochs=1)
            ds = s.dataset
    return ds


def _write_folder():
    os.makedirs(WORK, exist_ok=True)
    d = tempfile.mkdtemp(prefix="c09_", dir=WORK)
    from PIL import Image
    for c in ("a", "b"):
        os.makedirs(os.path.join(d, c))
        for k in range(2):
            arr = np.random.default_rng([ord(c), k]).integers(0, 256, size=(10, 12, 3), dtype=np.uint8)
            Image.fromarray(arr, "RGB").save(os.path.join(d, c, f"{k}.png"))
    return d


def _states(ds):
    return {p: treg.gen_state(g) for p, g in treg.walk_generators(ds).items()}


def _worker_copy(spec, template, tmpdir, g):
    try:
        return copy.deepcopy(template), "deepcopy"
    except Exception:
        c08._set_globals(g)
        return build(spec, tmpdir), "rebuild"


def _cross(spec, template, tmpdir, g, sa, sb):
    """second opinion for 'a state of worker a occurs in worker b' with unrelated seeds"""
    wc, _ = _worker_copy(spec, template, tmpdir, g)
    wd, _ = _worker_copy(spec, template, tmpdir, g)
    _init(wc, (sa * 31 + 1000003) % (2 ** 31), spec["rank"])
    _init(wd, (sb * 17 + 7) % (2 ** 31), spec["rank"])
    return bool(set(_states(wc).values()) & set(_states(wd).values()))


def _init(ds, seed, rank):
    np.random.seed(seed)
    torch.manual_seed(seed)
    random.seed(seed)
    ds.worker_init_fn(rank, **HOOK_KW)


def check(spec):
    tmpdir = _write_folder() if spec["w"]["kind"] == "imagefolder" else None
    try:
        g = spec["g0"]
        c08._set_globals(g)
        try:
            template = build(spec, tmpdir)
        except AssertionError:
            raise Refused("constructor assertion")
        if spec.get("pre_init") is not None:
            # the hook may also be run by hand in the main process (e.g. to load one sample) before workers are spawned
            _init(template, spec["pre_init"], spec["rank"])
        if spec.get("peek"):
            # a sample is loaded in the main process before the workers exist (dataset[0] to look at shapes): whatever that creates lazily
            # is copied into every worker and must be re-seeded there like everything else
            for item in ("x", "class"):
                try:
                    getattr(template, f"getitem_{item}")(0)
                except Exception:
                    pass
        base = _states(template)
        if not base and spec["w"]["kind"] != "mix":
            raise Refused("no generator reachable")
        sa, sb = spec["seed_a"], spec["seed_b"]
        wa, how = _worker_copy(spec, template, tmpdir, g)
        wb, _ = _worker_copy(spec, template, tmpdir, g)
        wa2, _ = _worker_copy(spec, template, tmpdir, g)
        if how == "rebuild":
            for d in (wa, wb, wa2):
                if _states(d) != base:
                    raise Refused("rebuild is not an exact copy (construction depends on more than the global state)")
        _init(wa, sa, spec["rank"])
        _init(wb, sb, spec["rank"])
        _init(wa2, sa, spec["rank"])
        if spec["w"]["kind"] == "multiview_pair":
            # the seeded neighbour serves one sample in every worker; the unseeded wrapper's streams must stay per-worker
            for d in (wa, wb, wa2):
                d.datasets[1].getitem_x(0)
        A, B, A2 = _states(wa), _states(wb), _states(wa2)
        if spec["w"]["kind"] == "multiview_pair":
            # the seeded wrapper re-injects default_rng(seed + idx) on every access by design (C08): its generators are a
            # function of (seed, idx), not of the worker - only the unseeded neighbour is judged here
            A, B, A2 = ({p_: v for p_, v in D_.items() if not p_.startswith(".datasets[1]")} for D_ in (A, B, A2))
        if set(A) != set(B):
            raise Violation("generator-set-differs-between-workers", str(sorted(set(A) ^ set(B)))[:300])
        def _confirmed_equal(p):
            # a 31-bit seed collision between two honest workers has probability ~5e-10 per generator; a coincidence is
            # reported only if it repeats with a second, unrelated pair of worker seeds
            wc, _ = _worker_copy(spec, template, tmpdir, g)
            wd, _ = _worker_copy(spec, template, tmpdir, g)
            _init(wc, (sa * 31 + 1000003) % (2 ** 31), spec["rank"])
            _init(wd, (sb * 17 + 7) % (2 ** 31), spec["rank"])
            C, D = _states(wc), _states(wd)
            return p in C and p in D and C[p] == D[p]
        for p in sorted(A):
            chain = treg.owner_chain(wa, p)
            if A[p] == B[p] and _confirmed_equal(p):
                copied = " (still the state copied from the main process)" if base.get(p) == A[p] else ""
                raise Violation(f"worker-streams-equal:{chain}", f"generator at {p} has the same state for worker seeds {sa} and {sb}{copied}")
            if A[p] != A2[p]:
                raise Violation(f"worker-stream-not-reproducible:{chain}", f"generator at {p} differs between two workers with seed {sa}")
        inter = set(A.values()) & set(B.values())
        if inter and _confirmed_equal(next(p for p in sorted(A) if A[p] in inter)) is not None and len(inter) > 0 and _cross(spec, template, tmpdir, g, sa, sb):
            p = next(p for p in sorted(A) if A[p] in inter)
            raise Violation(f"worker-replays-part-of-another-stream:{treg.owner_chain(wa, p)}", f"state of {p} occurs in the other worker")
        # stream-level confirmation on copies of the generators
        for p in sorted(A)[:6]:
            if p not in A:
                continue
            ga = copy.deepcopy(treg.walk_generators(wa)[p])
            gb = copy.deepcopy(treg.walk_generators(wb)[p])
            if np.array_equal(ga.random(4), gb.random(4)):
                raise Violation(f"worker-streams-equal:{treg.owner_chain(wa, p)}", f"first draws at {p} coincide")
        depths = {p.count(".") + p.count("[") for p in A}
        nt = len(depths) >= 2 or bool(spec["w"].get("collators")) or (spec["w"].get("t") is not None and treg.is_composite(spec["w"]["t"]))
        return Case(nt, [spec["w"]["kind"], how, "gens=%d" % min(len(A), 9)] + list(spec.get("top", [])), len(A))
    finally:
        if tmpdir:
            shutil.rmtree(tmpdir, ignore_errors=True)


class DigestWrapper(KDWrapper):
    def getitem_digest(self, idx, ctx=None):
        info = torch.utils.data.get_worker_info()
        st_ = _states(self.dataset)
        h = hashlib.sha1(repr(sorted(st_.items())).encode()).hexdigest()
        per = {p: hashlib.sha1(s.encode()).hexdigest()[:12] for p, s in st_.items()}
        return (-1 if info is None else info.id, h, per)


def _first(batch):
    return batch[0]


def check_real_workers(spec):
    from kappadata.wrappers import ModeWrapper
    c08._set_globals(spec["g0"])
    try:
        ds = build(dict(spec, top=[]), None)
    except AssertionError:
        raise Refused("constructor assertion")
    if not _states(ds):
        raise Refused("no generator reachable")
    if spec.get("pre_init") is not None:
        _init(ds, spec["pre_init"], 0)
    mw = ModeWrapper(DigestWrapper(ds), mode="digest")

    w = spec["w"]
    sched = any(treg.contains(t, "scheduled") for t in ([w["t"]] if isinstance(w.get("t"), dict) else [])
                + [c["t"] for c in w.get("configs", []) if isinstance(c.get("t"), dict)])
    via = spec.get("via") if not sched else None  # (a scheduled transform needs hook arguments the scheduler's loader does not pass)

    def run():
        torch.manual_seed(spec["seed_a"])
        if via is not None:
            # the loader the interleaved scheduler builds itself, with and without an explicit prefetch factor
            from kappadata.samplers import InterleavedSampler
            sch = InterleavedSampler(main_sampler=torch.utils.data.SequentialSampler(mw), batch_size=1, epochs=1, drop_last=False,
                                     main_collator=_first)
            loader = sch.get_data_loader(num_workers=2, prefetch_factor=via or None)
        else:
            loader = torch.utils.data.DataLoader(mw, batch_size=1, num_workers=2, collate_fn=lambda b: b[0],
                                                 worker_init_fn=partial(mw.worker_init_fn, **HOOK_KW))
        out = {}
        for wid, h, per in loader:
            if wid in out and out[wid][0] != h:
                raise Violation("real-worker-generator-state-changes-without-draws", "")
            out[wid] = (h, per)
        return out
    r1, r2 = run(), run()
    if len(r1) < 2:
        raise Refused("fewer than two workers produced samples")
    if r1[0][0] == r1[1][0]:
        raise Violation("real-workers-share-streams", "all generator states equal in worker 0 and worker 1")
    for p in r1[0][1]:
        if r1[0][1][p] == r1[1][1].get(p):
            raise Violation(f"real-workers-share-streams:{treg.owner_chain(ds, p)}", f"generator {p} equal in both workers")
    if {k: v[0] for k, v in r1.items()} != {k: v[0] for k, v in r2.items()}:
        raise Violation("real-workers-not-reproducible", "same torch seed, different generator states")
    return Case(True, [spec["w"]["kind"]], 2)


# ------------------------------------------------------------------------------------------ strategies
_LIB = treg.img_composite(depth=3, allow_scheduled=True)
# mostly library transforms; sometimes a user-written transform that uses the documented per-worker hook, alone or inside a composition
_USER = st.just({"k": "user_hook"})
WITHSCHED = st.one_of(_LIB, _LIB, _LIB, _LIB, _USER, st.tuples(_LIB, st.booleans()).map(
    lambda t: {"k": "compose", "m": ([t[0], {"k": "user_hook"}] if t[1] else [{"k": "user_hook"}, t[0]])}),
    # a plain callable (torchvision transform, lambda) before / after a library member of a composition
    st.tuples(_LIB, st.booleans()).map(lambda t: {"k": "compose", "m": ([{"k": "plain"}, t[0]] if t[1] else [t[0], {"k": "plain"}, t[0]])}))


@st.composite
def stack(draw, tier, for_real=False):
    kind = draw(st.sampled_from(["x", "x", "x", "y", "multiview", "multiview", "semseg", "semseg", "minaug_x", "minaug_mv", "mix",
                                 "imagefolder", "collators_only", "mugs", "byol", "multiview_pair"]))
    if for_real and kind in ("imagefolder", "multiview_pair"):
        kind = "x"
    w = {"kind": kind, "n": draw(st.integers(2, 5)), "key": draw(st.integers(0, 99)),
         "seed": draw(st.sampled_from([None, None, None, 5])), "pos": draw(st.sampled_from(["top", "under_pass", "over_subset", "under_subset"])),
         "factory": draw(st.booleans())}
    if kind in ("x", "y"):
        w["t"] = draw(WITHSCHED)
        w["fam"] = treg.family(w["t"])
    elif kind == "multiview":
        w["configs"] = [{"n_views": draw(st.integers(1, 2)), "t": draw(st.one_of(WITHSCHED, WITHSCHED, st.just("plain")))}
                        for _ in range(draw(st.integers(1, 3)))]
        w["fam"] = "img3"
    elif kind == "multiview_pair":
        w["configs"] = [{"n_views": draw(st.integers(1, 2)), "t": draw(treg.leaf_spec(draw(st.sampled_from(
            ["KDRandomHorizontalFlip", "KDAdditiveUniformNoise", "KDRandomGrayscale", "KDAdditiveGaussianNoise"]))))}
            for _ in range(draw(st.integers(1, 2)))]
    elif kind == "mix":
        w.update(p=1.0, alpha=1.0, fam="img3", pos=draw(st.sampled_from(["top", "over_subset"])))
    elif kind == "semseg":
        w.update(ts=draw(c08.SEMSEG_T), fam="img3", pos=draw(st.sampled_from(["top", "over_subset"])))
    elif kind == "imagefolder":
        w["t"] = draw(st.one_of(WITHSCHED, st.sampled_from(sorted(treg.PIPELINES)).map(lambda n: {"k": "pipeline", "name": n})))
    elif kind == "collators_only":
        pass
    else:
        w["fam"] = "pipeline"
    names = ["mix", "dino", "pad", "compose", "wrapper", "mae"] + ([] if for_real else ["ijepa"])
    if kind == "collators_only":
        w["collators"] = draw(st.lists(st.sampled_from(names), min_size=1, max_size=3))
        w["via"] = draw(st.sampled_from(["init", "property"]))
    elif kind != "imagefolder" and draw(st.integers(0, 2)) == 0:
        w["collators"] = draw(st.lists(st.sampled_from(names), min_size=1, max_size=2))
    top = draw(st.lists(st.sampled_from(["pass", "subset", "concat", "concat_rev", "concat_shared", "mode", "interleaved", "pseudo"]), max_size=2))
    if "mode" in top or "interleaved" in top:
        # ModeWrapper / the scheduler's dataset are always outermost
        top = [t for t in top if t not in ("mode", "interleaved")] + [next(t for t in top if t in ("mode", "interleaved"))]
    if kind in ("mix", "semseg") and "mode" in top:
        top = ["mode"]
    if kind == "multiview_pair":
        top = []
    return {"w": w, "top": top, "g0": draw(st.integers(0, 999)), "seed_a": draw(st.integers(0, 2 ** 31 - 1)),
            "seed_b": draw(st.integers(0, 2 ** 31 - 1)), "rank": draw(st.integers(0, 3)),
            "pre_init": draw(st.sampled_from([None, None, 7, 12345])), "peek": draw(st.booleans()),
            # real-worker facet only: None = a hand-made DataLoader, 0 = the scheduler's own loader, 2/3 = ... with an explicit prefetch factor
            "via": draw(st.sampled_from([None, None, 0, 2, 3])) if for_real else None}


def _distinct(s):
    return s["seed_a"] != s["seed_b"]


FACETS = [
    Facet("simulated-workers", check, strategy=lambda tier: stack(tier).filter(_distinct),
          budget={"quick": 3600, "thorough": 20000}, shards={"quick": 12, "thorough": 16},
          min_nontrivial={"quick": 300, "thorough": 3000}, case_timeout=300),
    Facet("real-workers", check_real_workers, strategy=lambda tier: stack(tier, for_real=True),
          budget={"quick": 64, "thorough": 300}, shards={"quick": 8, "thorough": 12},
          min_nontrivial={"quick": 8, "thorough": 100}, case_timeout=300),
]
