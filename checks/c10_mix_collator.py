"""C10 - batch mixup/cutmix mixes image and label with the same partner and weight."""
import numpy as np
import torch
from hypothesis import strategies as st

from vlib.core import Case, Facet, Refused, Violation

# thorough-tier budgets of every facet are multiplied by this factor (sized for ~5-8 min on 16 cores)
THOROUGH_SCALE = 4
LEVEL = "exploration"
RULE = ("spec = batch size 1-8 (even where flip needs it), image shape C in {1,3} x H,W in [1,9], 1 (binary scalar labels) to 10 "
        "classes with arbitrary collisions, mode = permutation of {x,class} plus optional index / extra item, every apply x lambda x "
        "shuffle mode, probability splits (1,0),(0,1),(q,1-q), alphas in (0.05,4], seed; data is id-encoded (x_k=(k+1)+noise_k, "
        "noise<1/4) so the partner is decodable; oracle = with w_i := ctx['lambda'] there must be a partner p such that label_i = "
        "w*y_i+(1-w)*y_p AND image_i is either w*x_i+(1-w)*x_p or x_i with one axis-aligned box of x_p whose complement fraction "
        "is w; p must be the partner prescribed by roll/flip, for random the partners must admit a bijection; rows sum to one, "
        "other items and ctx entries untouched; never replays the collator's rng; non-trivial = cutmix_p>0, or per-sample lambda "
        "with both probabilities >0, or shuffle in {flip, random}, or binary labels; distinct = distinct spec hash")
ASSUMPTIONS = ["tolerances: label 1e-5, image mixup 2e-4 (float32 mixing of values <= 9.25), cutmix box fraction 1e-6",
               "mixup_p + cutmix_p == 1 (anything else is a documented NotImplementedError)"]


def make_batch(spec):
    B, C, H, W, K = spec["B"], spec["C"], spec["H"], spec["W"], spec["K"]
    rng = np.random.default_rng(spec["key"])
    xs = [torch.from_numpy(rng.random(size=(C, H, W), dtype=np.float32)) * 0.25 + (k + 1) for k in range(B)]
    cls = [int(c) for c in rng.integers(0, max(K, 2) if K > 1 else 2, size=B)]
    if K == 1:
        ys = [torch.tensor(float(c)) for c in cls]
    else:
        ys = [torch.nn.functional.one_hot(torch.tensor(c), num_classes=K).float() for c in cls]
    # the dataset may hand out its one-hot labels in another dtype (int64 straight from one_hot, float64): the reference keeps
    # float32 copies, the samples carry the configured dtype
    ldt = {"float32": torch.float32, "int64": torch.int64, "float64": torch.float64}[spec.get("label_dtype", "float32")]
    # images may be float64 (numpy's default) - the reference keeps float32 copies of the same values
    xdt = {"float32": torch.float32, "float64": torch.float64, "uint8": torch.uint8}[spec.get("x_dtype", "float32")]
    if xdt == torch.uint8:
        # raw 8-bit images: whole-number pixel values (the reference holds the same numbers as float32)
        xs = [(x * 30).floor() for x in xs]  # at most (8 + 0.25) * 30 < 256
    if spec.get("nonfinite") and spec["mixup_p"] == 0.0 and spec.get("x_dtype") != "uint8":
        # an invalid-pixel marker (inf) in every image; only for pure cutmix - a paste copies pixels, it does no arithmetic on them
        for k in range(min(B, H * W)):  # a different pixel in every image (equal pixels of two images cannot be told apart after a paste)
            xs[k][:, k // W, k % W] = float("inf")
    samples = []
    for k in range(B):
        items = []
        for it in spec["mode"]:
            if it == "x":
                xk = xs[k].clone().to(xdt)
                # 'permuted': the dataset stores images channels-last; a collator in front of the mix collator turns the batch into NCHW
                items.append(xk.permute(1, 2, 0).contiguous() if spec.get("layout") == "permuted" else xk)
            elif it == "class":
                items.append(ys[k].clone().to(ldt) if K > 1 else ys[k].clone())
            elif it == "index":
                items.append(k)
            else:
                items.append(torch.tensor([k * 10.0, 7.0]))
        items = items[0] if len(items) == 1 else tuple(items)
        samples.append((items, {"tag": torch.tensor(float(k))}))
    return xs, ys, samples


def _box_decode(out, xi, xp):
    """out consists of xi with one axis-aligned box of xp pasted: returns box area or None"""
    from_p = (out == xp).all(dim=0) & ~(xp == xi).all(dim=0)
    from_i = (out == xi).all(dim=0)
    if not bool((from_p | from_i).all()):
        return None
    if not from_p.any():
        return 0
    rows = from_p.any(dim=1).nonzero().flatten()
    cols = from_p.any(dim=0).nonzero().flatten()
    r0, r1, c0, c1 = int(rows[0]), int(rows[-1]), int(cols[0]), int(cols[-1])
    if not bool(from_p[r0:r1 + 1, c0:c1 + 1].all()):
        return None
    return (r1 - r0 + 1) * (c1 - c0 + 1)


def _match(cands, B):
    """is there a bijection i -> p with p in cands[i]?"""
    match = {}

    def aug(i, seen):
        for p in cands[i]:
            if p in seen:
                continue
            seen.add(p)
            if p not in match or aug(match[p], seen):
                match[p] = i
                return True
        return False
    return all(aug(i, set()) for i in range(B))


def check(spec):
    from kappadata.collators import KDMixCollator
    B, C, H, W, K = spec["B"], spec["C"], spec["H"], spec["W"], spec["K"]
    mode = " ".join(spec["mode"])
    kw = dict(apply_mode=spec["apply_mode"], lamb_mode=spec["lamb_mode"], shuffle_mode=spec["shuffle_mode"])
    mp, cp = spec["mixup_p"], 1.0 - spec["mixup_p"]
    if spec["mixup_p"] in (0.0, 1.0):
        cp = 1.0 - mp
    kw.update(mixup_p=mp if mp > 0 else None, cutmix_p=cp if cp > 0 else None,
              mixup_alpha=spec["mixup_alpha"] if mp > 0 else None, cutmix_alpha=spec["cutmix_alpha"] if cp > 0 else None)
    if spec.get("mae"):
        from kappadata.common.collators.mae_finetune_mix_collator import MAEFinetuneMixCollator
        coll = MAEFinetuneMixCollator()
        coll.return_ctx = True
        coll.dataset_mode = mode
        mp, cp = 0.5, 0.5
        kw.update(shuffle_mode="flip", lamb_mode="batch", apply_mode="batch")
    else:
        cls = KDMixCollator
        if spec.get("user_shuffle"):
            # a user subclass that overrides the public partner hook (here: roll by two): image and label still share the partner
            class RollTwoCollator(KDMixCollator):
                def shuffle(self, item, permutation):
                    return item.roll(shifts=2, dims=0), None
            cls = RollTwoCollator
        try:
            if spec.get("reassign_shuffle"):
                # the collator is re-configured after construction (public attribute): partners follow the mode that is set when a batch arrives
                first = "roll" if kw["shuffle_mode"] != "roll" else "random"
                coll = cls(dataset_mode=mode, return_ctx=True, **dict(kw, shuffle_mode=first))
                coll.shuffle_mode = kw["shuffle_mode"]
            else:
                coll = cls(dataset_mode=mode, return_ctx=True, **kw)
        except AssertionError:
            raise Refused("constructor assertion")
        if spec.get("layout") == "permuted":
            from kappadata.collators import KDComposeCollator, KDSingleCollator
            xpos, nitems = spec["mode"].index("x"), len(spec["mode"])

            class ToChannelsFirst(KDSingleCollator):
                @property
                def default_collate_mode(self):
                    return "before"

                def collate(self, batch, dataset_mode, ctx=None):
                    # a permuted *view*: the batch that reaches the next collator is not contiguous
                    if nitems == 1:
                        return batch.permute(0, 3, 1, 2)
                    out = list(batch)
                    out[xpos] = out[xpos].permute(0, 3, 1, 2)
                    return type(batch)(out) if isinstance(batch, (tuple, list)) else out
            inner = coll
            coll = KDComposeCollator([ToChannelsFirst(), inner], dataset_mode=mode, return_ctx=True)
            coll.set_rng = inner.set_rng
    coll.set_rng(np.random.default_rng(spec["seed"]))
    xs, ys, samples = make_batch(spec)
    if kw["shuffle_mode"] == "flip" and B % 2 == 1 and B > 1:
        raise Refused("flip needs an even batch")
    if spec.get("x_dtype") == "uint8":
        try:
            batch, ctx = coll(samples)
        except Exception as e:
            # integer images cannot be blended in place: refused (if a version answers, the answer is judged like any other)
            raise Refused("integer images refused: " + type(e).__name__)
    else:
        batch, ctx = coll(samples)
    if len(spec["mode"]) == 1 and not torch.is_tensor(batch):
        raise Violation("layout-changed:single-item-mode", f"single-item mode {mode!r} returned {type(batch).__name__} of length "
                                                          f"{len(batch) if hasattr(batch, '__len__') else '?'} instead of the bare batch")
    items = dict(zip(spec["mode"], batch if len(spec["mode"]) > 1 else (batch,)))
    if len(spec["mode"]) > 1 and (not isinstance(batch, (tuple, list)) or len(batch) != len(spec["mode"])):
        raise Violation("layout-changed", f"{type(batch).__name__} of {len(batch)} for mode {mode}")
    # untouched items and ctx entries
    if "index" in items and items["index"].tolist() != list(range(B)):
        raise Violation("other-item-changed:index", str(items["index"].tolist()))
    if "extra" in items and not torch.equal(items["extra"], torch.stack([torch.tensor([k * 10.0, 7.0]) for k in range(B)])):
        raise Violation("other-item-changed:extra", "")
    if "tag" not in ctx or ctx["tag"].tolist() != [float(k) for k in range(B)]:
        raise Violation("per-sample-ctx-changed", str(ctx.get("tag")))
    for key in ("apply", "use_cutmix", "lambda"):
        if key not in ctx:
            raise Violation("ctx-key-missing", key)
    lam = ctx["lambda"].flatten().double()
    if len(lam) not in (1, B):
        raise Violation("ctx-lambda-shape", str(tuple(ctx["lambda"].shape)))
    w = [float(lam[i if len(lam) == B else 0]) for i in range(B)]
    X = items["x"]
    if tuple(X.shape) != (B, C, H, W):
        raise Violation("image-shape", str(tuple(X.shape)))
    Y = items.get("class")
    if Y is not None:
        if not torch.is_tensor(Y) or tuple(Y.shape) != ((B, K) if K > 1 else (B,)):
            raise Violation("label-shape", f"{tuple(getattr(Y, 'shape', ()))} for batch {B}, {'one-hot over ' + str(K) if K > 1 else 'binary scalar'} labels")
        Y = Y.double()
    cands = []
    n_cut = 0
    for i in range(B):
        wi = w[i]
        if not (-1e-6 <= wi <= 1 + 1e-6):
            raise Violation("weight-outside-[0,1]", f"row {i}: {wi}")
        ok_p = []
        img_only = []
        for p in range(B):
            # image explanation with weight wi and partner p
            mix = wi * xs[i].double() + (1 - wi) * xs[p].double()
            is_mixup = bool((X[i].double() - mix).abs().max() <= 2e-4)
            if spec.get("nonfinite") and spec["mixup_p"] == 0.0 and spec.get("x_dtype") != "uint8":
                # images with inf markers (inf - inf and 0 * inf are nan): a term with coefficient zero vanishes, equal infinities are equal
                exp_ = xs[i].double() if wi >= 1 - 1e-12 else xs[p].double() if wi <= 1e-12 else mix
                is_mixup = bool(((X[i].double() == exp_) | ((X[i].double() - exp_).abs() <= 2e-4)).all())
            area = _box_decode(X[i], xs[i], xs[p])
            is_cut = area is not None and abs((1 - area / (H * W)) - wi) <= 1e-6
            if not (is_mixup or is_cut):
                continue
            img_only.append(p)
            if Y is not None:
                if K == 1:
                    yexp = wi * ys[i].double() + (1 - wi) * ys[p].double()
                    if abs(float(Y[i]) - float(yexp)) > 1e-5:
                        continue
                else:
                    yexp = wi * ys[i].double() + (1 - wi) * ys[p].double()
                    if float((Y[i].double() - yexp).abs().max()) > 1e-5:
                        continue
            if is_cut and not is_mixup:
                n_cut += 1
            ok_p.append(p)
        if not ok_p:
            what = "image" if not img_only else "label"
            sig = f"image-and-label-disagree:{kw['lamb_mode']}" if img_only else f"image-not-explained-by-reported-weight:{kw['lamb_mode']}"
            raise Violation(sig, f"row {i}: reported weight {wi}; partners explaining the image {img_only}; none of them explains the "
                                 f"{what} (mode {mode}, {kw}, mixup_p={mp})")
        cands.append(ok_p)
    sm = kw["shuffle_mode"]
    if B > 1:
        for i in range(B):
            pres = (i - 1) % B if sm == "roll" else B - 1 - i if sm == "flip" else None
            if spec.get("user_shuffle") and not spec.get("mae"):
                pres = (i - 2) % B
            if pres is not None and pres not in cands[i]:
                raise Violation(f"partner-not-the-prescribed-one:{sm}", f"row {i}: decoded partners {cands[i]}, {sm} prescribes {pres}")
        if sm == "random" and not (spec.get("user_shuffle") and not spec.get("mae")) and not _match(cands, B):
            raise Violation("random-partners-not-a-permutation", str(cands))
    if Y is not None:
        if K > 1:
            if float((Y.sum(dim=1) - 1).abs().max()) > 1e-5:
                raise Violation("label-rows-do-not-sum-to-one", str(Y.sum(dim=1).tolist()))
            if tuple(Y.shape) != (B, K):
                raise Violation("label-shape", str(tuple(Y.shape)))
        else:
            if tuple(Y.shape) != (B,) or float(Y.min()) < -1e-6 or float(Y.max()) > 1 + 1e-6:
                raise Violation("binary-label-shape-or-range", str(Y))
    nt = cp > 0 or (kw["lamb_mode"] == "sample" and mp > 0 and cp > 0) or sm in ("flip", "random") or K == 1
    return Case(nt and B > 1, [sm, kw["lamb_mode"], kw["apply_mode"], "both" if mp > 0 and cp > 0 else "mixup" if mp > 0 else "cutmix",
                               "binary" if K == 1 else "multi"] + (["cut-rows"] if n_cut else []), B)


def check_clips(spec):
    """cutmix over a batch the library (at the pinned commit) refuses - clips with a time axis (B, C, T, H, W): it stays refused, or, if a
    version accepts it, the reported weight is the retained fraction of the sample in the output and the label carries the same weight"""
    from kappadata.collators import KDMixCollator
    B, C, T, H, W, K = spec["B"], 1, spec["T"], spec["H"], spec["W"], spec["K"]
    rng = np.random.default_rng(spec["key"])
    xs = [torch.from_numpy(rng.random(size=(C, T, H, W), dtype=np.float32)) * 0.25 + (k + 1) for k in range(B)]
    cls = [int(c) for c in rng.integers(0, K, size=B)]
    ys = [torch.nn.functional.one_hot(torch.tensor(c), num_classes=K).float() for c in cls]
    samples = [((xs[k].clone(), ys[k].clone()), {}) for k in range(B)]
    coll = KDMixCollator(cutmix_p=1.0, cutmix_alpha=spec["alpha"], shuffle_mode="roll", lamb_mode=spec["lamb_mode"], apply_mode="batch",
                         dataset_mode="x class", return_ctx=True)
    coll.set_rng(np.random.default_rng(spec["seed"]))
    try:
        (X, Y), ctx = coll(samples)
    except Exception:
        raise Refused("clip batches are refused")
    lam = ctx["lambda"].flatten().tolist()
    if len(lam) == 1:
        lam = lam * B
    for i in range(B):
        p_ = (i - 1) % B
        kept = float((X[i] == xs[i]).float().mean())
        from_partner = float((X[i] == xs[p_]).float().mean()) if B > 1 else 0.0
        if B > 1 and abs(kept + from_partner - 1.0) > 1e-6:
            raise Violation("clips:output-is-not-sample-plus-partner", f"row {i}: {kept:.4f} of the elements are the sample's, {from_partner:.4f} the partner's")
        if B > 1 and abs(kept - lam[i]) > 1.0 / (T * H * W) + 1e-6:
            raise Violation("clips:reported-weight-is-not-the-retained-fraction", f"row {i}: reported weight {lam[i]:.4f}, retained fraction {kept:.4f} "
                                                                                  f"(clip {T}x{H}x{W})")
        ey = lam[i] * ys[i] + (1 - lam[i]) * ys[p_]
        if float((Y[i] - ey).abs().max()) > 1e-5:
            raise Violation("clips:label-weight-differs-from-reported-weight", f"row {i}")
    return Case(True, ["accepted"], B)


@st.composite
def spec_s(draw, mae=False):
    sm = "flip" if mae else draw(st.sampled_from(["roll", "flip", "random"]))
    B = draw(st.integers(1, 8))
    if sm == "flip" and B > 1 and B % 2:
        B += 1
    mode = ["x", "class"] if mae else draw(st.permutations(["x", "class"]))
    mode = list(mode)
    if not mae:
        if draw(st.integers(0, 5)) == 0:
            mode = ["x"]
        for extra in ("index", "extra"):
            if draw(st.booleans()):
                mode.insert(draw(st.integers(0, len(mode))), extra)
    return {"B": B, "C": draw(st.sampled_from([1, 3])), "H": draw(st.integers(1, 9)), "W": draw(st.integers(1, 9)),
            "K": draw(st.integers(2, 10)) if mae else draw(st.integers(1, 10)), "mode": mode, "key": draw(st.integers(0, 2 ** 20)),
            "apply_mode": draw(st.sampled_from(["batch", "sample"])), "lamb_mode": draw(st.sampled_from(["batch", "sample"])),
            "shuffle_mode": sm, "mixup_p": draw(st.sampled_from([1.0, 0.0, 0.5, 0.3, 0.8])),
            "mixup_alpha": draw(st.sampled_from([0.1, 0.8, 1.0, 4.0])), "cutmix_alpha": draw(st.sampled_from([0.1, 1.0, 4.0])),
            "seed": draw(st.integers(0, 2 ** 32 - 1)), "mae": mae,
            "label_dtype": draw(st.sampled_from(["float32", "float32", "int64", "float64"])),
            "user_shuffle": (not mae) and draw(st.integers(0, 4)) == 0,
            "x_dtype": draw(st.sampled_from(["float32", "float32", "float64"] + ([] if mae else ["uint8"]))),
            "nonfinite": (not mae) and draw(st.booleans()),
            "layout": None if mae else draw(st.sampled_from([None, None, "permuted"])),
            "reassign_shuffle": (not mae) and draw(st.integers(0, 3)) == 0}


FACETS = [
    Facet("mix-collator", check, strategy=lambda tier: spec_s(), budget={"quick": 6000, "thorough": 100000},
          shards={"quick": 8, "thorough": 16}, min_nontrivial={"quick": 1000, "thorough": 10000}),
    Facet("clip-batches", check_clips,
          strategy=lambda tier: st.fixed_dictionaries({"B": st.integers(2, 5), "T": st.integers(4, 8), "H": st.integers(4, 9), "W": st.integers(4, 9),
                                                       "K": st.integers(2, 6), "key": st.integers(0, 999), "seed": st.integers(0, 2 ** 31),
                                                       "alpha": st.sampled_from([0.5, 1.0, 4.0]), "lamb_mode": st.sampled_from(["batch", "sample"])}),
          budget={"quick": 200, "thorough": 2000}, shards={"quick": 1, "thorough": 2}, min_nontrivial={"quick": 0, "thorough": 0}),
    Facet("mae-finetune-collator", check, strategy=lambda tier: spec_s(mae=True), budget={"quick": 400, "thorough": 5000},
          shards={"quick": 1, "thorough": 4}, min_nontrivial={"quick": 100, "thorough": 1000}),
]
