"""C03 - each dataset-manipulation wrapper selects exactly the promised samples."""
import math
import random
import signal
from collections import Counter

import numpy as np
import torch
from hypothesis import strategies as st

from kappadata.datasets import KDDataset
from vlib.core import Case, CaseTimeout, Facet, Refused, Violation, guarded

# thorough-tier budgets of every facet are multiplied by this factor (sized for ~5-8 min on 16 cores)
THOROUGH_SCALE = 4
LEVEL = "exploration"
RULE = ("spec = explicit class layout (n 0..48, C 1..8; uniform / blocks / dominant / absent / single-sample classes; -1 only for "
        "OversamplingWrapper(multiply)) + wrapper arguments on and off integer boundaries (percents from {0,1,k/n,k/n+-eps,any}, "
        "index bounds {0,n,beyond,any}, seeds, repetitions, min_size, shots, modes, ceil flags); oracle = one validity predicate "
        "per wrapper derived from its documentation plus the metamorphic partition law W(to=p)++W(from=p)==range(n), seed-only "
        "dependence (two builds under different global RNG states) and a termination bound; non-trivial = layout has an absent or "
        "single-sample class, or an argument sits on 0 / 1 / a non-integer boundary, or n<=1; distinct = distinct spec hash")
ASSUMPTIONS = ["root x of sample j is j itself, so the selected multiset is read off getitem_x",
               "construction on <=48 samples normally takes <5 ms; 1.5 s without returning is reported as non-termination"]


class ClassRoot(KDDataset):
    def __init__(self, classes, C, bulk="list", native_items=False, name_mod=None):
        super().__init__()
        self.classes, self.C, self.bulk = list(classes), C, bulk
        # native_items: per-sample labels come in the container's own scalar type (numpy integer / 0-d tensor) instead of a python int
        self.native_items = native_items
        # name_mod < C: several classes carry the same name (ImageNet has two "crane" and two "maillot" classes)
        self.class_names = [f"name{k % (name_mod or C)}" for k in range(C)]

    def __len__(self):
        return len(self.classes)

    def getitem_x(self, idx, ctx=None):
        idx = int(idx)
        if idx < 0:
            idx += len(self.classes)
        if not 0 <= idx < len(self.classes):
            raise IndexError(idx)
        return idx

    def getitem_class(self, idx, ctx=None):
        c = self.classes[int(idx)]
        if self.native_items:
            kind, _, dt = self.bulk.partition(":")
            if kind == "numpy":
                return getattr(np, dt or "int64")(c)
            if kind == "tensor":
                return torch.tensor(c, dtype=getattr(torch, dt or "long"))
        return c

    def getall_class(self):
        # "numpy" / "tensor" / "list", or with an explicit (narrow) integer dtype: "numpy:uint8", "tensor:int16", ...
        kind, _, dt = self.bulk.partition(":")
        if kind == "numpy":
            return np.array(self.classes, dtype=getattr(np, dt or "int64"))
        if kind == "tensor":
            return torch.tensor(self.classes, dtype=getattr(torch, dt or "long"))
        return list(self.classes)

    def getshape_class(self):
        # the library's convention for binary problems: two classes with labels 0 / 1 announce the class shape (1,)
        if self.C == 2 and self.__dict__.get("binary_shape"):
            return (1,)
        return (self.C,)


class ClassRootNoBulk(ClassRoot):
    getall_class = property(lambda self: (_ for _ in ()).throw(AttributeError("getall_class")))


def _build(kind, root, args):
    import kappadata.wrappers as W
    from kappadata.wrappers.dataset_wrappers.classwise_subset_wrapper import ClasswiseSubsetWrapper
    from kappadata.wrappers.dataset_wrappers.intra_class_shuffle_wrapper import IntraClassShuffleWrapper
    cls = {"ClasswiseSubsetWrapper": ClasswiseSubsetWrapper, "IntraClassShuffleWrapper": IntraClassShuffleWrapper}.get(kind) \
        or getattr(W, kind)
    return cls(dataset=root, **args)


class _Term:
    def __init__(self, seconds):
        self.seconds = seconds

    def _h(self, *a):
        raise TimeoutError()

    def __enter__(self):
        self.old = signal.signal(signal.SIGALRM, self._h)
        # repeating: an exception raised while a gc callback runs is swallowed, so one shot is not enough
        self.prev = signal.setitimer(signal.ITIMER_REAL, self.seconds, 0.05)

    def __exit__(self, *a):
        signal.setitimer(signal.ITIMER_REAL, 0)
        signal.signal(signal.SIGALRM, self.old)
        if self.prev[0] > 0:  # re-arm the outer per-case alarm
            signal.setitimer(signal.ITIMER_REAL, max(0.1, self.prev[0] - self.seconds))


def selection(kind, spec, args, g=0):
    """build the wrapper under global RNG state g and return the selected underlying ids (list)"""
    np.random.seed(1000 + g)
    torch.manual_seed(2000 + g)
    random.seed(3000 + g)
    n = len(spec["classes"])
    if spec.get("under") is not None and n > 0:
        # the wrapper sits on top of other index-changing layers: what it sees (classes, positions) is the child's view.
        # spec["classes"] describes that view; the root underneath holds the same samples in another order.
        from kappadata.datasets import KDSubset
        perm = [int(i) for i in np.random.default_rng([spec["under"], 3]).permutation(n)]
        root_classes = [None] * n
        for pos, r in enumerate(perm):
            root_classes[r] = spec["classes"][pos]
        root = ClassRoot(root_classes, spec["C"], spec.get("bulk", "list"), spec.get("native_items", False), spec.get("name_mod"))
        base = KDSubset(KDSubset(root, list(range(n))[::-1]), [n - 1 - r for r in perm])  # two layers composing to perm
        inv = {r: pos for pos, r in enumerate(perm)}
    elif spec.get("under") is not None:
        # an empty view (list of indices) of a root that is not empty
        from kappadata.datasets import KDSubset
        root = ClassRoot([0, spec["C"] - 1, 0], spec["C"], spec.get("bulk", "list"), spec.get("native_items", False), spec.get("name_mod"))
        base = KDSubset(root, [])
        inv = {}
    else:
        root = ClassRoot(spec["classes"], spec["C"], spec.get("bulk", "list"), spec.get("native_items", False), spec.get("name_mod"))
        base = root
        inv = None
    root.binary_shape = bool(spec.get("binary_shape"))
    if spec.get("no_bulk"):
        # a dataset that answers per-sample label requests only (no getall_class)
        root.__class__ = ClassRootNoBulk
    import copy as _copy
    if spec.get("prior") and base is not root:
        # the same wrapper was built over the root object before (another split of the same data): nothing it learned about the root may
        # leak into the wrapper that is built over a *view* of that root now
        try:
            with _Term(1.5):
                _build(kind, root, _copy.deepcopy(args))
        except (AssertionError, TimeoutError):
            pass
    args_before = _copy.deepcopy(args)
    try:
        with _Term(1.5):
            w = _build(kind, base, args)
    except TimeoutError:
        raise Violation(f"construction-does-not-terminate:{kind}", f"args {args} layout {spec['classes']}")
    # the selection is a function of the constructor arguments: the objects handed in must come back unchanged
    for k_, v_ in args.items():
        b_ = args_before[k_]
        same = (torch.equal(v_, b_) if torch.is_tensor(v_) else np.array_equal(v_, b_) if isinstance(v_, np.ndarray) else v_ == b_)
        if not same:
            raise Violation(f"constructor-mutates-its-argument:{kind}:{k_}", f"{k_}: {b_!r} became {v_!r}"[:300])
    if len(w) != len(w.indices):
        raise Violation(f"len!=indices:{kind}", "")
    sel = [w.getitem_x(i) for i in range(len(w))]
    if inv is not None:
        sel = [inv[j] for j in sel]
    cls = [int(w.getitem_class(i)) for i in range(len(w))]
    if cls != [spec["classes"][j] for j in sel]:
        raise Violation(f"class-of-selected-sample-differs:{kind}", "")
    return sel


def _refusal(e):
    return isinstance(e, (AssertionError,))


def run(kind, spec, args):
    if "seed" in args and spec.get("seed_form") == "numpy":
        args = dict(args, seed=np.int64(args["seed"]))  # a seed taken from an array of seeds
    try:
        sel = selection(kind, spec, args, 0)
    except AssertionError as e:
        raise Refused(f"{kind}: constructor assertion")
    sel2 = selection(kind, spec, args, 1)
    if sel != sel2:
        raise Violation(f"selection-depends-on-global-rng:{kind}", f"{sel} vs {sel2}")
    return sel


def layout_nontrivial(spec):
    cnt = Counter(c for c in spec["classes"] if c >= 0)
    n = len(spec["classes"])
    return n <= 1 or any(cnt.get(c, 0) in (0, 1) for c in range(spec["C"]))


def _is_boundary(v, n):
    if v is None:
        return False
    if v in (0, 1):
        return True
    x = v * n
    return abs(x - round(x)) > 1e-9


# ------------------------------------------------------------------ per-wrapper checks
def check_class_filter(spec):
    if spec.get("wide"):
        # many classes with sparse ids and a long filter list (e.g. a small split of a 1000-class dataset filtered to 50 classes)
        g = np.random.default_rng(spec["wide"])
        Cw = int(g.integers(100, 3000))
        pool = [int(v) for v in g.choice(Cw, size=12, replace=False)]
        n_ = max(1, len(spec["classes"]))
        cl_ = [pool[int(g.integers(0, len(pool)))] for _ in range(n_)]
        Vw = sorted({int(v) for v in g.choice(Cw, size=int(g.integers(15, 60)), replace=False)} | set(pool[:int(g.integers(0, 6))]))
        spec = dict(spec, classes=cl_, C=Cw, V=Vw, how=spec["how"].replace("_class_names", "_classes").replace("class_names", "classes"), under=None)
    n, cl = len(spec["classes"]), spec["classes"]
    V = spec["V"]
    how = spec["how"]
    names = [f"name{k}" for k in V]
    args = {"valid_classes": {"valid_classes": V}, "invalid_classes": {"invalid_classes": V},
            "valid_class_names": {"valid_class_names": names}, "invalid_class_names": {"invalid_class_names": names}}[how]
    sel = run("ClassFilterWrapper", spec, args)
    hit = (lambda c: c in V)
    if how.endswith("names") and spec.get("name_mod"):
        # a name selects every class that carries it
        hit = (lambda c: f"name{c % spec['name_mod']}" in names)
    keep = hit if how.startswith("valid") else (lambda c: not hit(c))
    exp = [j for j in range(n) if keep(cl[j])]
    if sel != exp:
        raise Violation(f"class-filter-selection:{how}", f"V={V} classes={cl}: got {sel} expected {exp}")
    return Case(layout_nontrivial(spec) or len(V) == 0, [how])


def _contig(sel):
    return all(b == a + 1 for a, b in zip(sel, sel[1:]))


def check_percent_filter(spec):
    n = len(spec["classes"])
    p, q = spec["p"], spec["q"]
    cf, ct = spec["ceil_from"], spec["ceil_to"]
    labels = []
    # a plain range
    a = run("PercentFilterWrapper", spec, dict(from_percent=p, to_percent=q, ceil_from_index=cf, ceil_to_index=ct))
    if not _contig(a):
        raise Violation("percent-filter-not-contiguous", f"{a}")
    if p <= q and abs(len(a) - (q - p) * n) >= 1 + 1e-9 and not (cf != ct):
        raise Violation("percent-filter-size", f"n={n} from={p} to={q}: {len(a)} samples")
    # complementary ranges with equal rounding partition the dataset
    for c in (False, True):
        lo = run("PercentFilterWrapper", spec, dict(to_percent=p, ceil_to_index=c))
        hi = run("PercentFilterWrapper", spec, dict(from_percent=p, ceil_from_index=c))
        if lo + hi != list(range(n)):
            raise Violation(f"percent-filter-partition:p={'0' if p == 0 else '1' if p == 1 else 'inner'}",
                            f"n={n} p={p} ceil={c}: to=p gives {lo}, from=p gives {hi}")
    return Case(_is_boundary(p, n) or _is_boundary(q, n) or n <= 1, labels, 5)


def check_subset_wrapper(spec):
    n = len(spec["classes"])
    form = spec["form"]
    if form == "indices":
        idx = [i for i in spec["indices"] if -n <= i < n]
        given = {"list": list(idx), "numpy": np.array(idx, dtype=np.int64), "tensor": torch.tensor(idx, dtype=torch.long)}[spec.get("as", "list")]
        sel = run("SubsetWrapper", spec, dict(indices=given))
        exp = [i % n for i in idx]
        if sel != exp:
            raise Violation("subset-wrapper-indices", f"{sel} vs {exp}")
        return Case(any(i < 0 for i in idx) or n <= 1, ["indices"])
    if form == "index":
        a, b = spec["a"], spec["b"]
        if a is not None:
            a = min(a, n, n if b is None else b)  # the constructor asserts start <= min(end, len)
        k = min(spec["k"], n)
        sel = run("SubsetWrapper", spec, dict(start_index=a, end_index=b))
        exp = list(range(n))[(a or 0):(n if b is None else b)]
        if sel != exp:
            raise Violation(f"subset-wrapper-index-range:end={'0' if b == 0 else 'other'}", f"n={n} start={a} end={b}: {sel} expected {exp}")
        lo = run("SubsetWrapper", spec, dict(end_index=k))
        hi = run("SubsetWrapper", spec, dict(start_index=k))
        if lo + hi != list(range(n)):
            raise Violation(f"subset-wrapper-index-partition:k={'0' if k == 0 else 'n' if k >= n else 'inner'}",
                            f"n={n} k={k}: end={k} gives {lo}, start={k} gives {hi}")
        return Case(b in (0, n) or a in (0, n) or k in (0, n) or (b is not None and b > n) or n <= 1, ["index"], 3)
    p, q = spec["p"], spec["q"]
    sel = run("SubsetWrapper", spec, dict(start_percent=p, end_percent=q))
    if not _contig(sel) or abs(len(sel) - (q - p) * n) >= 1 + 1e-9:
        raise Violation("subset-wrapper-percent-range", f"n={n} {p}..{q}: {sel}")
    lo = run("SubsetWrapper", spec, dict(end_percent=p))
    hi = run("SubsetWrapper", spec, dict(start_percent=p))
    if lo + hi != list(range(n)):
        raise Violation(f"subset-wrapper-percent-partition:p={'0' if p == 0 else '1' if p == 1 else 'inner'}",
                        f"n={n} p={p}: end gives {lo}, start gives {hi}")
    return Case(_is_boundary(p, n) or _is_boundary(q, n) or n <= 1, ["percent"], 3)


def _unseeded_follows_global_state(kind, spec):
    """without a seed the wrappers draw from the process-global numpy generator (the library's documented way to get reproducible runs is
    np.random.seed): two builds under the SAME global state select the same samples"""
    a = selection(kind, spec, {}, 5)
    b = selection(kind, spec, {}, 5)
    if a != b:
        raise Violation(f"unseeded-selection-not-reproducible-under-equal-global-state:{kind}", f"{a} vs {b}")


def check_shuffle(spec):
    n = len(spec["classes"])
    _unseeded_follows_global_state("ShuffleWrapper", spec)
    sel = run("ShuffleWrapper", spec, dict(seed=spec["seed"]))
    if sorted(sel) != list(range(n)):
        raise Violation("shuffle-not-a-permutation", str(sel))
    other = run("ShuffleWrapper", spec, dict(seed=spec["seed"] + 1))
    moved = sel != list(range(n)) or other != list(range(n))
    if n >= 8 and not moved:
        raise Violation("shuffle-is-identity", f"seeds {spec['seed']},{spec['seed'] + 1} both give the identity on n={n}")
    return Case(n <= 1 or n >= 8, [], 2)


def check_sort_by_class(spec):
    n, cl = len(spec["classes"]), spec["classes"]
    sel = run("SortByClassWrapper", spec, {})
    exp = sorted(range(n), key=lambda j: cl[j])  # python's sort is stable
    if sel != exp:
        raise Violation("sort-by-class", f"classes {cl}: {sel} expected {exp}")
    return Case(layout_nontrivial(spec), [])


def check_intra_class_shuffle(spec):
    n, cl = len(spec["classes"]), spec["classes"]
    _unseeded_follows_global_state("IntraClassShuffleWrapper", spec)
    sel = run("IntraClassShuffleWrapper", spec, dict(seed=spec["seed"]))
    if sorted(sel) != list(range(n)):
        raise Violation("intra-class-shuffle-not-a-permutation", str(sel))
    if [cl[j] for j in sel] != cl:
        raise Violation("intra-class-shuffle-changes-class-sequence", f"{[cl[j] for j in sel]} vs {cl}")
    other = run("IntraClassShuffleWrapper", spec, dict(seed=spec["seed"] + 1))
    big = max(Counter(cl).values()) if cl else 0
    if big >= 8 and sel == list(range(n)) and other == list(range(n)):
        raise Violation("intra-class-shuffle-is-identity", "")
    return Case(layout_nontrivial(spec) or big >= 8, [], 2)


def check_repeat(spec):
    n = len(spec["classes"])
    if "repetitions" in spec:
        r = spec["repetitions"]
        sel = run("RepeatWrapper", spec, dict(repetitions=r))
        exp_r = r
    else:
        m = spec["min_size"]
        sel = run("RepeatWrapper", spec, dict(min_size=m))
        exp_r = -(-m // n)
        if len(sel) < m:
            raise Violation("repeat-below-min-size", f"n={n} min_size={m}: {len(sel)}")
    if sel != list(range(n)) * exp_r:
        raise Violation("repeat-not-whole-round-robin-copies", f"n={n}: {sel[:30]} expected {exp_r} copies")
    return Case(n <= 1 or ("min_size" in spec and spec["min_size"] % n != 0) or exp_r >= 3, ["rep" if "repetitions" in spec else "min_size"])


def check_oversampling(spec):
    n, cl, C = len(spec["classes"]), spec["classes"], spec["C"]
    mode = spec["mode"]
    sel = run("OversamplingWrapper", spec, dict(mode=mode))
    cnt = Counter(c for c in cl if c >= 0)
    mx = max(cnt.values()) if cnt else 0
    use = Counter(sel)
    labeled = [j for j in range(n) if cl[j] >= 0]
    for j in (range(n) if mode == "multiply" else labeled):
        if use[j] == 0:
            raise Violation(f"oversampling-drops-a-sample:{mode}", f"sample {j} (class {cl[j]}) missing; classes {cl}")
    if mode == "multiply":
        for j in range(n):
            exp = 1 if cl[j] < 0 else max(1, mx // cnt[cl[j]])
            if use[j] != exp:
                raise Violation("oversampling-multiply-factor", f"sample {j} class {cl[j]} used {use[j]}x, expected {exp}; classes {cl}")
    else:
        tot = Counter(cl[j] for j in sel)
        for c in range(C):
            if cnt.get(c, 0) == 0:
                if tot.get(c, 0):
                    raise Violation("oversampling-exact-invents-class", str(c))
                continue
            if tot[c] != mx:
                raise Violation("oversampling-exact-balance", f"class {c} totals {tot[c]}, majority {mx}; classes {cl}")
            uses = [use[j] for j in range(n) if cl[j] == c]
            if max(uses) - min(uses) > 1:
                raise Violation("oversampling-exact-uneven-reuse", f"class {c} usage {uses}")
    return Case(layout_nontrivial(spec), [mode])


def check_fewshot(spec):
    n, cl = len(spec["classes"]), spec["classes"]
    k = spec["shots"]
    sel = run("FewshotWrapper", spec, dict(num_shots=k, seed=spec["seed"]))
    cnt = Counter(cl)
    if len(set(sel)) != len(sel):
        raise Violation("fewshot-duplicate-sample", str(sel))
    got = Counter(cl[j] for j in sel)
    for c in set(cl):
        if got.get(c, 0) != min(k, cnt[c]):
            raise Violation("fewshot-count", f"class {c}: {got.get(c, 0)} shots, expected min({k},{cnt[c]})")
    if [cl[j] for j in sel] != sorted(cl[j] for j in sel):
        raise Violation("fewshot-class-order", str([cl[j] for j in sel]))
    return Case(layout_nontrivial(spec) or k == 0, [])


def check_classwise_subset(spec):
    n, cl, C = len(spec["classes"]), spec["classes"], spec["C"]
    per = {c: [j for j in range(n) if cl[j] == c] for c in range(C)}
    if spec["form"] == "index":
        a, b = spec["a"], spec["b"]
        if a is not None:
            a = min(a, n, n if b is None else b)
        sel = run("ClasswiseSubsetWrapper", spec, dict(start_index=a, end_index=b, check_enough_samples=False))
        exp = [j for c in range(C) for j in per[c][(a or 0):(n if b is None else b)]]
        if sel != exp:
            raise Violation(f"classwise-subset-index:end={'0' if b == 0 else 'other'}", f"classes {cl} [{a}:{b}]: {sel} expected {exp}")
        return Case(layout_nontrivial(spec) or b == 0 or a == 0, ["index"])
    p, q = spec["p"], spec["q"]
    sel = run("ClasswiseSubsetWrapper", spec, dict(start_percent=p, end_percent=q))
    pos = 0
    for c in range(C):
        take = [j for j in sel if cl[j] == c]
        m = len(per[c])
        if take and (take != per[c][per[c].index(take[0]):per[c].index(take[0]) + len(take)]):
            raise Violation("classwise-subset-percent-not-a-slice", f"class {c}: {take} of {per[c]}")
        if abs(len(take) - (q - p) * m) >= 1 + 1e-9:
            raise Violation("classwise-subset-percent-size", f"class {c}: {len(take)} of {m} for {p}..{q}")
    if [cl[j] for j in sel] != sorted(cl[j] for j in sel):
        raise Violation("classwise-subset-order", "")
    lo = run("ClasswiseSubsetWrapper", spec, dict(end_percent=p))
    hi = run("ClasswiseSubsetWrapper", spec, dict(start_percent=p))
    for c in range(C):
        if [j for j in lo if cl[j] == c] + [j for j in hi if cl[j] == c] != per[c]:
            raise Violation(f"classwise-subset-percent-partition:p={'0' if p == 0 else '1' if p == 1 else 'inner'}",
                            f"class {c} samples {per[c]}: end={p} gives {[j for j in lo if cl[j] == c]}, start={p} gives "
                            f"{[j for j in hi if cl[j] == c]}")
    return Case(layout_nontrivial(spec) or p in (0, 1) or q in (0, 1), ["percent"], 3)


# ------------------------------------------------------------------ strategies
@st.composite
def layout(draw, min_n=0, max_n=48, all_present=False, allow_unlabeled=False):
    C = draw(st.integers(1, 8))
    n = draw(st.one_of(st.integers(min_n, max_n), st.sampled_from([max(min_n, 0), max(min_n, 1), max(min_n, 2)])))
    kind = draw(st.sampled_from(["uniform", "blocks", "dominant", "absent", "singles"]))
    k = draw(st.integers(0, 2 ** 20))
    rng = np.random.default_rng(k)
    if kind == "uniform":
        cl = rng.integers(0, C, size=n).tolist()
    elif kind == "blocks":
        cl = sorted(rng.integers(0, C, size=n).tolist())
    elif kind == "dominant":
        cl = [0 if rng.random() < 0.7 else int(rng.integers(0, C)) for _ in range(n)]
    elif kind == "absent":
        present = sorted(set(rng.integers(0, C, size=max(1, C // 2)).tolist()))
        cl = [present[int(rng.integers(0, len(present)))] for _ in range(n)]
    else:
        cl = list(range(min(C, n))) + [int(rng.integers(0, max(1, C // 2))) for _ in range(max(0, n - C))]
        rng.shuffle(cl)
        cl = [int(c) for c in cl]
    if allow_unlabeled and n and draw(st.integers(0, 3)) == 0:
        for j in rng.choice(n, size=max(1, n // 5), replace=False):
            cl[int(j)] = -1
    return {"classes": cl, "C": C, "bulk": draw(st.sampled_from(["list", "numpy", "tensor"])), "lk": kind}


def percent(n_hint=None):
    return st.one_of(st.sampled_from([0.0, 1.0, 0.5, 0.25, 0.1, 1 / 3]), st.floats(0, 1, allow_nan=False),
                     st.integers(0, 48).map(lambda k: min(1.0, k / 48)), st.integers(1, 47).map(lambda k: k / 48 + 1e-7))


@st.composite
def with_layout(draw, extra, **kw):
    s = draw(layout(**kw))
    s.update(draw(extra))
    # a third of the cases place the wrapper above two other index-changing layers
    s["under"] = draw(st.sampled_from([None, None, 1, 2, 3]))
    if s.get("bulk") not in ("list", "numpy", "tensor"):
        s["under"] = None
    s["native_items"] = draw(st.booleans())
    s["prior"] = draw(st.booleans())
    s["binary_shape"] = draw(st.booleans())
    if "seed" in s:
        s["seed_form"] = draw(st.sampled_from(["int", "int", "numpy"]))
    if s["C"] >= 2 and draw(st.integers(0, 3)) == 0:
        s["name_mod"] = draw(st.integers(1, s["C"] - 1))
        if "how" in s:
            # shared names only matter for the class filter's by-name arguments on the ordinary (not the wide) layout: generate that
            # combination on purpose instead of leaving it to the product of three independent draws
            s["wide"] = None
            if draw(st.integers(0, 3)) != 0:
                s["how"] = s["how"].replace("_classes", "_class_names")
    return s


def _two_percents():
    return st.tuples(percent(), percent()).map(lambda t: {"p": min(t), "q": max(t)})


S_CLASS_FILTER = with_layout(st.fixed_dictionaries({
    # class ids / names to filter by; two-digit ids give names no dataset has ("name12") - they select nothing, whatever they start with
    "V": st.lists(st.one_of(st.integers(0, 7), st.integers(0, 7), st.integers(10, 79)), max_size=4, unique=True),
    "how": st.sampled_from(["valid_classes", "invalid_classes", "valid_class_names", "invalid_class_names"]),
    "wide": st.sampled_from([None, None, 1, 2, 3, 4, 5, 6, 7, 8])}))
S_PERCENT = with_layout(st.tuples(_two_percents(), st.booleans(), st.booleans()).map(
    lambda t: dict(t[0], ceil_from=t[1], ceil_to=t[2])))
S_SUBSET = with_layout(st.one_of(
    st.fixed_dictionaries({"form": st.just("indices"), "indices": st.lists(st.integers(-48, 47), max_size=10),
                           "as": st.sampled_from(["list", "numpy", "tensor"])}),
    st.fixed_dictionaries({"form": st.just("index"), "a": st.one_of(st.none(), st.integers(0, 10)),
                           "b": st.one_of(st.none(), st.integers(0, 60)), "k": st.integers(0, 50)}).filter(
        lambda d: (d["a"] is not None or d["b"] is not None) and (d["a"] is None or d["b"] is None or d["a"] <= d["b"])),
    _two_percents().map(lambda d: dict(d, form="percent"))))
S_SEED = with_layout(st.fixed_dictionaries({"seed": st.integers(0, 2 ** 31)}))
S_PLAIN = with_layout(st.just({}))
S_REPEAT = with_layout(st.one_of(st.fixed_dictionaries({"repetitions": st.integers(1, 5)}),
                                 st.fixed_dictionaries({"min_size": st.integers(1, 150)})), min_n=1)
S_OVERSAMPLING = st.one_of(with_layout(st.just({"mode": "multiply"}), min_n=1, allow_unlabeled=True),
                           with_layout(st.just({"mode": "exact"}), min_n=1))
S_FEWSHOT = with_layout(st.fixed_dictionaries({"shots": st.integers(0, 5), "seed": st.integers(0, 2 ** 31)}), min_n=1)
S_CLASSWISE = with_layout(st.one_of(
    st.fixed_dictionaries({"form": st.just("index"), "a": st.one_of(st.none(), st.integers(0, 6)),
                           "b": st.one_of(st.none(), st.integers(0, 12))}).filter(
        lambda d: (d["a"] is not None or d["b"] is not None) and (d["a"] is None or d["b"] is None or d["a"] <= d["b"])),
    _two_percents().map(lambda d: dict(d, form="percent"))))


def F(name, fn, strat, q=600, t=8000):
    # an exception raised inside the library for a generated, accepted configuration is a violation (constructor assertions are handled
    # as refusals inside run())
    fn = guarded(name, fn)
    return Facet(name, fn, strategy=lambda tier, s=strat: s, budget={"quick": q, "thorough": t},
                 shards={"quick": 1, "thorough": 4}, min_nontrivial={"quick": q // 12, "thorough": t // 12}, case_timeout=60)


def _large_specs(tier):
    """datasets beyond 2**16 samples (chunked counting, 16-bit indices, ... have their boundaries there): a handful of fixed layouts"""
    sizes = [(2 ** 16 + 37, [0.6, 0.3, 0.1])] + ([(2 ** 16 + 1, [0.5, 0.5]), (2 ** 17 + 5, [0.7, 0.2, 0.05, 0.05])] if tier == "thorough" else [])
    for n, fr in sizes:
        cl = []
        for c, f_ in enumerate(fr):
            cl += [c] * int(n * f_)
        cl += [0] * (n - len(cl))
        order = np.random.default_rng(n).permutation(n)
        cl = [cl[int(i)] for i in order]
        base = {"classes": cl, "C": len(fr), "bulk": "numpy", "lk": 0, "under": None, "native_items": False, "prior": False, "binary_shape": False}
        yield dict(base, what="classwise", form="percent", p=0.25, q=0.75)
        yield dict(base, what="oversampling", mode="exact")
        yield dict(base, what="oversampling", mode="multiply")


def check_large(spec):
    if spec["what"] == "classwise":
        return check_classwise_subset(spec)
    return check_oversampling(spec)


FACETS = [
    Facet("large-datasets", guarded("large-datasets", check_large), enumerate=_large_specs, exhaustive=True, shards={"quick": 3, "thorough": 9},
          min_nontrivial={"quick": 0, "thorough": 0}, case_timeout=600),
    F("class-filter", check_class_filter, S_CLASS_FILTER),
    F("percent-filter", check_percent_filter, S_PERCENT),
    F("subset-wrapper", check_subset_wrapper, S_SUBSET, q=900, t=12000),
    F("shuffle", check_shuffle, S_SEED),
    F("sort-by-class", check_sort_by_class, S_PLAIN),
    F("intra-class-shuffle", check_intra_class_shuffle, S_SEED),
    F("repeat", check_repeat, S_REPEAT),
    F("oversampling", check_oversampling, S_OVERSAMPLING),
    F("fewshot", check_fewshot, S_FEWSHOT),
    F("classwise-subset", check_classwise_subset, st.tuples(S_CLASSWISE, st.booleans()).map(lambda t: dict(t[0], no_bulk=t[1]))),
]
