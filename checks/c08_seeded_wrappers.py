"""C08 - seeded sample wrappers make sample i a pure function of (data, config, seed, i).
Model-based check over generated operation sequences (access / perturb globals / rebuild / dataloader pass)."""
import random
import weakref

import numpy as np
import torch
from hypothesis import strategies as st

from kappadata.datasets import KDDataset, KDSubset, KDWrapper
from vlib import treg
from vlib.core import Case, Facet, Refused, Violation

_CALLER_CONFIGS = {}  # id(multi-view wrapper) -> (weakref to it, the config objects its caller passed and still holds)

# thorough-tier budgets of every facet are multiplied by this factor (sized for ~5-8 min on 16 cores)
THOROUGH_SCALE = 4
LEVEL = "exploration"
RULE = ("spec = seeded wrapper stack (X/Y/Source/Target transform wrappers with registry transforms incl. composites, "
        "KDMultiViewWrapper 1-3 configs x 1-3 views, KDMixWrapper, SemsegTransformWrapper, BYOL / ImageNet-minaug / MUGS "
        "multi-view wrappers; wrapper directly on the root, under a pass-through wrapper, above or below a KDSubset) + an "
        "operation sequence (<=25 steps) of access(i, mode) / perturb_globals / rebuild (independent instance under another "
        "global state) / loader_pass(num_workers 0/2/3, batch size, order); model = dict index->first observed value, every later "
        "observation (incl. ctx) must equal it; extra facet: different indices draw different streams; non-trivial = history "
        "with a repeated index, a non-monotone order and at least one perturb/rebuild/loader step; distinct = distinct spec hash")
ASSUMPTIONS = ["root datasets return a fresh tensor / image per call", "KDScheduledTransform is excluded from C08 compositions (its "
               "output depends on the per-worker call count by design; covered by C07/C09/C15)",
               "real DataLoader workers: OS scheduling is sampled, not controlled"]


class ImgRoot(KDDataset):
    def __init__(self, n, key, fam="img", C=4):
        super().__init__()
        self.n, self.key, self.fam, self.C = n, key, fam, C

    def __len__(self):
        return self.n

    def _x(self, idx, salt=0):
        idx = int(idx)
        if idx < 0:
            idx += self.n
        return treg.make_input(self.fam, (self.key * 131 + idx) * 2 + 1 + salt * 1000)

    def getitem_x(self, idx, ctx=None):
        return self._x(idx)

    def getitem_y(self, idx, ctx=None):
        return self._x(idx, 1)

    def getitem_source(self, idx, ctx=None):
        return self._x(idx, 2)

    def getitem_target(self, idx, ctx=None):
        return self._x(idx, 3)

    def getitem_class(self, idx, ctx=None):
        return int((int(idx) * 7 + self.key) % self.C)

    def getitem_semseg(self, idx, ctx=None):
        x = self._x(idx)
        h, w = x.shape[-2:]
        g = np.random.default_rng([self.key, int(idx), 5])
        return torch.from_numpy(g.integers(0, 5, size=(h, w)))

    def getshape_class(self):
        return (self.C,)


class PassW(KDWrapper):
    pass


class PlainCallable:
    """a view transform that is not a KDTransform (like a torchvision transform or a function)"""

    def __call__(self, x):
        return x * 0.5


def build_stack(w):
    import kappadata.wrappers as W
    kind = w["kind"]
    fam = w.get("fam", "img")
    root = ImgRoot(w["n"], w["key"], fam)
    perm = [int(i) for i in np.random.default_rng([w["key"], 77]).permutation(w["n"])]
    base = root
    if w.get("pos") == "over_subset":
        base = KDSubset(root, perm)
    seed = w["seed"]
    if w.get("seed_form") == "numpy":
        seed = np.int64(seed)  # a seed taken from an array of seeds
    if kind in ("x", "y", "source", "target"):
        cls = {"x": W.XTransformWrapper, "y": W.YTransformWrapper, "source": W.SourceTransformWrapper, "target": W.TargetTransformWrapper}[kind]
        # the documented signatures are (dataset, transform | configs | transforms, seed): half of the wrappers are built positionally
        tr = treg.for_wrapper(w["t"], bool(w.get("factory")))  # an object, or its description as configuration files give it
        ds = cls(base, tr, seed) if w.get("call") == "positional" else cls(base, transform=tr, seed=seed)
    elif kind == "multiview":
        cfg_objs = [(c["n_views"], PlainCallable() if c["t"] == "plain" else treg.build(c["t"], factory=bool(w.get("factory")))) for c in w["configs"]]
        ds = W.KDMultiViewWrapper(base, cfg_objs, seed) if w.get("call") == "positional" else W.KDMultiViewWrapper(base, configs=cfg_objs, seed=seed)
        # what the caller still holds - kept outside the dataset's object graph (it is not part of the dataset: C09 walks everything
        # reachable from a dataset and would otherwise judge the caller's untouched originals as worker state)
        for k in [k for k, (r, _) in _CALLER_CONFIGS.items() if r() is None]:
            del _CALLER_CONFIGS[k]
        _CALLER_CONFIGS[id(ds)] = (weakref.ref(ds), cfg_objs)
    elif kind == "mv_over_x":
        # a seeded multi-view wrapper above an UNSEEDED transform wrapper whose transform is stochastic: the library refuses this stack
        # (it could not keep sample i a function of the seed) - it must keep refusing it, whatever the apply probability
        inner = W.XTransformWrapper(base, transform=treg.build(w["t"]), seed=None)
        ds = W.KDMultiViewWrapper(inner, configs=[(2, treg.build({"k": "KDAdditiveUniformNoise", "a": {"magnitude": 1.0, "magnitude_std": 0.0,
                                                                                                       "magnitude_min": 0.0}}))], seed=seed)
    elif kind == "xy_shared":
        # one transform object used for input and target with the same seed (consistent augmentation of x and y)
        shared_t = treg.build(w["t"])
        ds = W.XTransformWrapper(W.YTransformWrapper(base, transform=shared_t, seed=seed), transform=shared_t, seed=seed)
    elif kind == "mix":
        ds = W.KDMixWrapper(base, mixup_p=w["p"], mixup_alpha=w["alpha"], seed=seed)
    elif kind == "x_over_mix":
        inner = W.KDMixWrapper(base, mixup_p=w["p"], mixup_alpha=w["alpha"], seed=seed)
        ds = W.XTransformWrapper(inner, transform=treg.build(w["t"]), seed=None if seed is None else seed + 3)
    elif kind == "semseg":
        import kappadata.transforms as T
        ts = []
        for s in w["ts"]:
            ts.append(getattr(T, s["k"])(**s["a"]) if s["k"].startswith("KDSemseg") else treg.build(s))
        ds = W.SemsegTransformWrapper(base, ts, seed) if w.get("call") == "positional" else W.SemsegTransformWrapper(base, transforms=ts, seed=seed)
    elif kind == "byol":
        from kappadata.common.wrappers.sample_wrappers import ByolMultiViewWrapper
        ds = ByolMultiViewWrapper(base, seed=seed)
    elif kind == "minaug_mv":
        from kappadata.common.wrappers.sample_wrappers import ImagenetMinaugMultiViewWrapper
        ds = ImagenetMinaugMultiViewWrapper(base, n_views=2, size=16, seed=seed)
    elif kind == "minaug_x":
        from kappadata.common.wrappers.sample_wrappers import ImagenetMinaugXTransformWrapper
        ds = ImagenetMinaugXTransformWrapper(base, size=16, seed=seed)
    elif kind == "mugs":
        from kappadata.common.wrappers.sample_wrappers import MUGSMultiViewWrapper
        ds = MUGSMultiViewWrapper(base, global_size=32, local_size=16, num_local_crops=2, seed=seed)
    else:
        raise ValueError(kind)
    if w.get("pos") == "under_pass":
        ds = PassW(ds)
    elif w.get("pos") == "under_subset":
        ds = KDSubset(ds, perm)
    return ds


def item_of(w):
    return {"y": "y", "source": "source", "target": "target"}.get(w["kind"], "x")


def _set_globals(k, consume=True):
    np.random.seed(k % (2 ** 32))
    torch.manual_seed(k)
    random.seed(k)
    if consume:
        np.random.rand(k % 5 + 1)
        torch.rand(k % 3 + 1)
        random.random()


def check(spec):
    from kappadata.wrappers import ModeWrapper
    w, ops = spec["w"], spec["ops"]
    _set_globals(spec.get("g0", 0))
    try:
        ds = build_stack(w)
    except AssertionError:
        raise Refused("constructor assertion")
    n = len(ds)
    it = item_of(w)
    modes = {"it": it}
    if w["kind"] in ("mix", "x_over_mix"):
        modes = {"it": "x", "class": "class", "xc": "x class", "cx": "class x"}
    elif w["kind"] == "semseg":
        modes = {"it": "x", "seg": "semseg", "xs": "x semseg", "sx": "semseg x"}
    elif w["kind"] == "xy_shared":
        modes = {"it": "x", "class": "y", "xc": "x y", "cx": "y x"}
    model = {}
    seq = []
    flags = set()
    evals = 0

    def observe(i, name, val, how):
        key = (i, name)
        if key in model:
            if not treg.out_equal(model[key], val):
                raise Violation(f"sample-not-a-function-of-index:{w['kind']}:{how}",
                                f"index {i} item {name}: first seen {treg.digest(model[key])}, now {treg.digest(val)} "
                                f"(after {sorted(flags)}, wrapper {w})"[:600])
        else:
            model[key] = val

    def access(cur, i, mkey):
        mode = modes.get(mkey, modes["it"])
        mw = ModeWrapper(cur, mode=mode, return_ctx=True)
        try:
            val, ctx = mw[i]
        except ValueError as e:
            if "crop size" in str(e):
                raise Refused("crop larger than image")
            raise
        except RuntimeError as e:
            if "clone() the tensor" in str(e):
                raise Refused("in-place member after a member that returns an expanded view")
            raise
        except NameError as e:
            raise Violation(f"seeded-wrapper-raises:NameError:{w['kind']}", repr(e))
        names = mode.split(" ")
        vals = [val] if len(names) == 1 else list(val)
        for nm, v in zip(names, vals):
            observe(i, nm, v, "access")
        if w["kind"] in ("multiview", "byol", "minaug_mv", "mugs"):
            observe(i, "ctx", ctx, "access-ctx")

    for op in ops:
        k = op[0]
        if k == "get":
            i = op[1] % n
            access(ds, i, op[2])
            seq.append(i)
            evals += 1
        elif k == "many":
            for a in op[1]:
                access(ds, a % n, "it")
                seq.append(a % n)
                evals += 1
        elif k == "perturb":
            _set_globals(op[1])
            flags.add("perturb")
        elif k == "reuse":
            # the caller builds a second wrapper from the very config objects it passed before (say, a weaker eval pipeline) and
            # turns that one down: the first wrapper made its own copies and must not notice
            import kappadata.wrappers as W2
            top = ds
            while not isinstance(top, W2.KDMultiViewWrapper) and hasattr(top, "dataset"):
                top = top.dataset
            held = _CALLER_CONFIGS.get(id(top))
            objs = held[1] if held is not None and held[0]() is top else None
            if objs is not None:
                second = W2.KDMultiViewWrapper(ImgRoot(w["n"], w["key"], w.get("fam", "img")), configs=objs, seed=op[1] % 1000)
                for cfg in second.transform_configs:
                    if hasattr(cfg.transform, "scale_strength"):
                        try:
                            cfg.transform.scale_strength(0.0)
                        except AssertionError:
                            pass
                second.getitem_x(0)
                flags.add("reuse")
        elif k == "rebuild":
            _set_globals(op[1])
            ds = build_stack(w)
            flags.add("rebuild")
        elif k == "clone":
            # what spawn-started workers, checkpointing code or a second loader do: the dataset travels through pickle / deepcopy
            # and the copy is used from then on - sample i stays the same function of (data, config, seed, i)
            import copy
            import pickle
            held = _CALLER_CONFIGS.get(id(ds))
            if held is not None and held[0]() is not ds:
                held = None  # a stale entry of a dead object whose id was reused (found as a flaky harness error in a thorough run)
            try:
                new = copy.deepcopy(ds) if op[1] % 2 else pickle.loads(pickle.dumps(ds))
            except (pickle.PicklingError, AttributeError, TypeError) as e:
                raise Refused(f"dataset cannot be copied: {type(e).__name__}")
            if held is not None:
                _CALLER_CONFIGS[id(new)] = (weakref.ref(new), held[1])
            ds = new
            flags.add("clone")
        elif k == "loader":
            nw, bs, okey = op[1], op[2], op[3]
            order = [int(j) for j in np.random.default_rng([okey, 3]).permutation(n)]
            mode = "index " + modes["it"]
            mw = ModeWrapper(ds, mode=mode, return_ctx=False)
            loader = torch.utils.data.DataLoader(mw, batch_size=bs, sampler=order, num_workers=nw,
                                                 worker_init_fn=mw.worker_init_fn if nw else None, collate_fn=_collate)
            try:
                for batch in loader:
                    for idx, val in batch:
                        observe(int(idx), modes["it"], val, f"loader{nw}")
                        evals += 1
            except ValueError as e:
                if "crop size" in str(e):
                    raise Refused("crop larger than image")
                raise
            except RuntimeError as e:
                if "clone() the tensor" in str(e):
                    raise Refused("in-place member after a member that returns an expanded view")
                raise
            flags.add("loader")
            flags.add(f"workers={nw}")
    if w["kind"] in ("mix", "semseg", "x_over_mix"):
        # every request form (item alone, jointly, either order) must describe the same sample
        for i in range(n):
            for mk in modes:
                access(ds, i, mk)
                evals += 1
    repeated = len(set(seq)) < len(seq)
    nonmono = any(b < a for a, b in zip(seq, seq[1:]))
    composite = w["kind"] not in ("x", "y", "source", "target", "xy_shared") or treg.is_composite(w["t"])
    if w["kind"] == "multiview":
        composite = True
    nt = repeated and nonmono and bool(flags & {"perturb", "rebuild", "loader"})
    return Case(nt, [w["kind"], w.get("pos", "top")] + sorted(flags) + (["composite"] if composite else []), max(1, evals))


def _collate(samples):
    return samples


def check_streams_differ(spec):
    """different indices draw from different streams (identical inputs, additive uniform noise exposes the draw)"""
    import kappadata.wrappers as W
    from kappadata.transforms import KDAdditiveUniformNoise

    class Zeros(KDDataset):
        def __len__(self):
            return spec["n"]

        def getitem_x(self, idx, ctx=None):
            return torch.zeros(1, 2, 3)

    if spec["kind"] == "x":
        ds = W.XTransformWrapper(Zeros(), transform=KDAdditiveUniformNoise(magnitude=1., magnitude_std=0.), seed=spec["seed"])
        vals = [ds.getitem_x(i) for i in range(spec["n"])]
    else:
        ds = W.KDMultiViewWrapper(Zeros(), configs=[(2, KDAdditiveUniformNoise(magnitude=1., magnitude_std=0.)),
                                                    (1, KDAdditiveUniformNoise(magnitude=1., magnitude_std=0.))], seed=spec["seed"])
        views = [ds.getitem_x(i) for i in range(spec["n"])]
        # no view of one index repeats a view of another index (view configs must not walk through each other's streams)
        for i in range(len(views)):
            for j in range(len(views)):
                if i != j:
                    for a, va in enumerate(views[i]):
                        for b, vb in enumerate(views[j]):
                            if torch.equal(va, vb):
                                raise Violation("views-of-different-indices-share-a-stream", f"view {a} of index {i} equals view {b} of index {j} (seed {spec['seed']})")
        vals = [torch.stack(v) for v in views]
    for i in range(len(vals)):
        for j in range(i + 1, len(vals)):
            if torch.equal(vals[i], vals[j]):
                raise Violation(f"indices-share-a-stream:{spec['kind']}", f"indices {i} and {j} drew identical noise (seed {spec['seed']})")
    return Case(True, [spec["kind"]], len(vals))


def _exact(x):
    """bit-exact fingerprint of a sample (tensors by their bytes)"""
    import hashlib
    if torch.is_tensor(x):
        return hashlib.sha1(x.detach().cpu().contiguous().numpy().tobytes()).hexdigest()[:16] + str(tuple(x.shape))
    if isinstance(x, (list, tuple)):
        return [_exact(v) for v in x]
    if hasattr(x, "tobytes") and hasattr(x, "size"):
        return hashlib.sha1(x.tobytes()).hexdigest()[:16]
    return repr(x)


def fresh_digests(spec):
    """fingerprints of all samples of a freshly built seeded stack (run in this process and in newly started interpreters)"""
    from kappadata.wrappers import ModeWrapper
    _set_globals(spec["g0"])
    ds = build_stack(spec["w"])
    mw = ModeWrapper(ds, mode=item_of(spec["w"]), return_ctx=False)
    return [_exact(mw[i]) for i in range(len(ds))]


def check_fresh_interpreters(spec):
    """sample i depends on data, configuration, seed and i only - not on the interpreter run: a newly started python process (its own
    string-hash randomisation, its own import order) must produce bit-identical samples"""
    import json
    import os
    import subprocess
    import sys
    try:
        here = fresh_digests(spec)
    except AssertionError:
        raise Refused("constructor assertion")
    except (ValueError, RuntimeError) as e:
        if "crop size" in str(e) or "clone() the tensor" in str(e):
            raise Refused("domain")
        raise
    verif = os.path.dirname(os.path.dirname(os.path.abspath(__file__)))
    repo = os.environ.get("VERIF_REPO", "/repo")
    code = ("import sys, json; sys.path[:0] = [%r, %r]; import torch; torch.set_num_threads(1); from checks import c08_seeded_wrappers as c; "
            "print('DIGESTS ' + json.dumps(c.fresh_digests(json.loads(sys.argv[1]))))" % (verif, repo))
    env = dict(os.environ, PYTHONHASHSEED=str(spec["hashseed"]), OMP_NUM_THREADS="1")
    r = subprocess.run([sys.executable, "-c", code, json.dumps(spec)], capture_output=True, text=True, env=env, timeout=240)
    line = next((l for l in r.stdout.splitlines() if l.startswith("DIGESTS ")), None)
    if line is None:
        raise Violation("fresh-interpreter-cannot-produce-the-samples", (r.stderr or r.stdout)[-300:])
    there = json.loads(line[len("DIGESTS "):])
    if there != here:
        k = next((i for i in range(min(len(here), len(there))) if here[i] != there[i]), "length")
        raise Violation(f"sample-differs-between-interpreter-runs:{spec['w']['kind']}", f"index {k} of a seeded {spec['w']['kind']} stack (PYTHONHASHSEED "
                                                                                          f"{spec['hashseed']} vs this process)")
    return Case(True, [spec["w"]["kind"]], len(here))


# ------------------------------------------------------------------------------------------ strategies
NOSCHED = treg.img_composite(depth=2, allow_scheduled=False)
SEMSEG_T = st.lists(st.sampled_from([
    {"k": "KDSemsegRandomHorizontalFlip", "a": {"p": 0.5}},
    {"k": "KDSemsegRandomResize", "a": {"base_size": [8, 12], "ratio": [0.5, 2.0], "interpolation": "nearest"}},
    {"k": "KDSemsegPad", "a": {"size": 12}},
    {"k": "KDSemsegRandomCrop", "a": {"size": 6, "max_category_ratio": 0.75}},
    {"k": "KDSemsegRandomCrop", "a": {"size": [4, 5]}},
    {"k": "KDRandomHorizontalFlip", "a": {"p": 0.0}},
    {"k": "KDAdditiveUniformNoise", "a": {"magnitude": 0.5, "magnitude_std": 0.0}},
    # image-only containers
    {"k": "compose", "m": [{"k": "KDAdditiveUniformNoise", "a": {"magnitude": 0.5, "magnitude_std": 0.0}}]},
    {"k": "random_apply", "p": 0.5, "t": {"k": "KDAdditiveUniformNoise", "a": {"magnitude": 0.5, "magnitude_std": 0.0}}},
]), min_size=1, max_size=4)


@st.composite
def wrapper_spec(draw, tier):
    kind = draw(st.sampled_from(["x", "x", "x", "y", "source", "target", "multiview", "multiview", "mix", "mix", "semseg", "semseg", "x_over_mix", "xy_shared", "mv_over_x",
                                 "minaug_x", "minaug_mv"] + (["byol", "mugs"] if tier == "thorough" else [])))
    w = {"kind": kind, "n": draw(st.integers(2, 7)), "key": draw(st.integers(0, 99)), "seed": draw(st.integers(0, 2 ** 31)),
         "pos": draw(st.sampled_from(["top", "under_pass", "over_subset", "under_subset"])),
         "seed_form": draw(st.sampled_from(["int", "int", "numpy"])), "call": draw(st.sampled_from(["keyword", "positional"])),
         "factory": draw(st.booleans())}
    if kind in ("x", "y", "source", "target"):
        w["t"] = draw(NOSCHED)
        w["fam"] = treg.family(w["t"])
    elif kind == "multiview":
        cfgs = [{"n_views": draw(st.integers(1, 3)), "t": draw(st.one_of(NOSCHED, NOSCHED, st.just("plain")))}
                for _ in range(draw(st.integers(1, 3)))]
        w["configs"] = cfgs
        w["fam"] = "img3" if any(c["t"] != "plain" and treg.family(c["t"]) == "img3" for c in cfgs) else "img"
    elif kind == "mv_over_x":
        name = draw(st.sampled_from(["KDRandomGaussianBlurTV", "KDRandomColorJitter", "KDRandomAdditiveGaussianNoise", "KDRandomSolarize"]))
        t = draw(treg.leaf_spec(name))
        t["a"]["p"] = draw(st.sampled_from([1.0, 1.0, 0.5, 0.0]))
        w["t"], w["fam"], w["pos"] = t, "img3", "top"
    elif kind == "xy_shared":
        w["t"] = draw(NOSCHED)
        w["fam"] = treg.family(w["t"])
    elif kind == "x_over_mix":
        w["pos"] = draw(st.sampled_from(["top", "over_subset"]))
        w["p"] = draw(st.sampled_from([1.0, 0.5]))
        w["alpha"] = 1.0
        w["t"] = draw(treg.leaf_spec(draw(st.sampled_from(["KDAdditiveUniformNoise", "KDRandomHorizontalFlip", "KDAdditiveGaussianNoise"]))))
        w["fam"] = "img3"
    elif kind == "mix":
        w["pos"] = draw(st.sampled_from(["top", "over_subset"]))  # fused items must be implemented by the outermost wrapper
        w["p"] = draw(st.sampled_from([1.0, 0.5]))
        w["alpha"] = draw(st.sampled_from([0.8, 1.0]))
        w["fam"] = "img3"
    elif kind == "semseg":
        w["pos"] = draw(st.sampled_from(["top", "over_subset"]))
        w["ts"] = draw(SEMSEG_T)
        w["fam"] = "img3"
    else:
        w["fam"] = "pipeline"
    return w


@st.composite
def op(draw, tier, tensor_out):
    k = draw(st.sampled_from(["get", "get", "get", "get", "many", "perturb", "rebuild", "reuse", "clone"] + (["loader"] if tensor_out else [])))
    if k == "get":
        return ["get", draw(st.integers(0, 20)), draw(st.sampled_from(["it", "it", "class", "xc", "cx", "seg", "xs", "sx"]))]
    if k == "many":
        return ["many", draw(st.lists(st.integers(0, 20), min_size=1, max_size=4))]
    if k in ("perturb", "rebuild", "reuse", "clone"):
        return [k, draw(st.integers(0, 2 ** 20))]
    nw = draw(st.sampled_from([0, 0, 2, 3])) if tier == "thorough" else draw(st.sampled_from([0, 0, 0, 2]))
    return ["loader", nw, draw(st.integers(1, 4)), draw(st.integers(0, 99))]


@st.composite
def machine_spec(draw, tier):
    w = draw(wrapper_spec(tier))
    ops = draw(st.lists(op(tier, True), min_size=3, max_size=25))
    # guarantee at least one repeated access so the model is exercised
    first = next((o for o in ops if o[0] == "get"), None)
    if first is not None:
        ops.append(list(first))
    return {"w": w, "ops": ops, "g0": draw(st.integers(0, 999))}


FACETS = [
    Facet("machines", check, strategy=lambda tier: machine_spec(tier),
          budget={"quick": 1920, "thorough": 6000}, shards={"quick": 12, "thorough": 16},
          min_nontrivial={"quick": 100, "thorough": 1500}, case_timeout=300),
    Facet("fresh-interpreters", check_fresh_interpreters,
          strategy=lambda tier: st.fixed_dictionaries({"w": wrapper_spec(tier).filter(lambda w: w["kind"] not in ("mix", "x_over_mix", "semseg", "xy_shared")),
                                                       "g0": st.integers(0, 999), "hashseed": st.integers(1, 4000)}),
          budget={"quick": 48, "thorough": 40}, shards={"quick": 16, "thorough": 16}, min_nontrivial={"quick": 12, "thorough": 60}, case_timeout=300),
    Facet("streams-differ", check_streams_differ,
          strategy=lambda tier: st.fixed_dictionaries({"kind": st.sampled_from(["x", "multiview"]), "n": st.integers(2, 12),
                                                       "seed": st.integers(0, 2 ** 31)}),
          budget={"quick": 200, "thorough": 2000}, shards={"quick": 1, "thorough": 2}, min_nontrivial={"quick": 50, "thorough": 500}),
]
