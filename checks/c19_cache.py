"""C19 - the in-memory cache is transparent for every access history (model-based, generated operation sequences)."""
import multiprocessing as mp

import numpy as np
import torch
from hypothesis import strategies as st

from vlib import treg
from vlib.core import Case, Facet, Refused, Violation, guarded

# thorough-tier budgets of every facet are multiplied by this factor (sized for ~5-8 min on 16 cores)
THOROUGH_SCALE = 3
LEVEL = "exploration"
RULE = ("spec = dataset of n 1-8 samples whose payloads come from a recursive strategy of picklable values (ints, finite floats, "
        "str, bytes, None, tuples, lists, dicts, ndarrays, tensors) + optional post-cache transform + an operation sequence (<=30) "
        "of get(i) / get_many(order) / clear / out-of-range / iterate / copy / pread(order: one long-lived forked reader serving requests "
        "for the rest of the history) / readers(R in {2,3}, per-reader access lists; forked processes sharing the cache); the wrapped "
        "dataset optionally has a transform attribute of its own; "
        "model = {i: payload}, loads[i], number of clears; invariants after every step: every observation deep-equals "
        "transform(payload_i), transform calls == accesses, in sequential stretches loads[i] rises by at most 1 between clears and "
        "rises again on the first access after a clear, after a readers step loads rise by <= R (0 if cached before) and all readers "
        "observed equal values, len unchanged; non-trivial = history with a repeat, a clear followed by a re-access, or a concurrent "
        "step; distinct = distinct spec hash")
ASSUMPTIONS = ["index domain [0,n) (what a dataloader produces); negative indices are cached under a second key - noted, not checked",
               "reader processes are real forked processes: their interleaving is sampled, not controlled"]


def build_payload(p):
    t = p["t"]
    if t == "int":
        return p["v"]
    if t == "float":
        return p["v"]
    if t == "str":
        return p["v"]
    if t == "bytes":
        return bytes(p["v"])
    if t == "none":
        return None
    if t == "tuple":
        return tuple(build_payload(x) for x in p["v"])
    if t == "list":
        return [build_payload(x) for x in p["v"]]
    if t == "dict":
        return {k: build_payload(x) for k, x in p["v"]}
    if t == "nd":
        return np.arange(p["n"], dtype=np.float64).reshape(-1, 1) * p["s"]
    if t == "tensor":
        return torch.arange(p["n"], dtype=torch.float32) * p["s"]
    raise ValueError(t)


LEAF = st.one_of(
    st.fixed_dictionaries({"t": st.just("int"), "v": st.integers(-10 ** 6, 10 ** 6)}),
    st.fixed_dictionaries({"t": st.just("float"), "v": st.floats(allow_nan=False, allow_infinity=False, width=32)}),
    st.fixed_dictionaries({"t": st.just("str"), "v": st.text(max_size=6)}),
    st.fixed_dictionaries({"t": st.just("bytes"), "v": st.lists(st.integers(0, 255), max_size=5)}),
    st.just({"t": "none"}),
    st.fixed_dictionaries({"t": st.just("nd"), "n": st.integers(0, 5), "s": st.integers(1, 9)}),
    st.fixed_dictionaries({"t": st.just("tensor"), "n": st.integers(0, 5), "s": st.integers(1, 9)}),
)
PAYLOAD = st.recursive(LEAF, lambda ch: st.one_of(
    st.fixed_dictionaries({"t": st.just("tuple"), "v": st.lists(ch, max_size=3)}),
    st.fixed_dictionaries({"t": st.just("list"), "v": st.lists(ch, max_size=3)}),
    st.fixed_dictionaries({"t": st.just("dict"), "v": st.lists(st.tuples(st.sampled_from(["a", "b", "c"]), ch), max_size=3,
                                                                 unique_by=lambda kv: kv[0])})), max_leaves=6)


def _base_transform(sample):
    return ("B", sample)


class Base(torch.utils.data.Dataset):
    def __init__(self, payload_specs, counter, own_transform=False):
        self.payload_specs, self.counter = payload_specs, counter
        self.marker = "base-attribute"
        if own_transform:
            # like torchvision-style datasets: the wrapped dataset has a `transform` attribute of its own and applies it itself
            self.transform = _base_transform

    def __len__(self):
        return len(self.payload_specs)

    def __getattr__(self, item):
        # optionally the wrapped dataset offers torch's batched protocol (as torch.utils.data.Subset does)
        if item == "__getitems__" and self.__dict__.get("batched"):
            return lambda idxs: [self[i] for i in idxs]
        raise AttributeError(item)

    def __getitem__(self, i):
        with self.counter.get_lock():
            self.counter[i] += 1
        v = build_payload(self.payload_specs[i])
        if self.__dict__.get("twin"):
            v = ("twin", v)
        return self.transform(v) if "transform" in self.__dict__ else v

    # a deep copy of the wrapped dataset is an independent dataset: it counts its own loads and is then configured differently (it
    # marks its samples), so that a cache shared by mistake between the two cached datasets shows
    def __getstate__(self):
        return {k: v for k, v in self.__dict__.items() if k != "counter"}

    def __setstate__(self, state):
        self.__dict__.update(state)
        self.counter = mp.get_context("fork").Array("i", len(self.payload_specs))
        self.twin = True


class Tag:
    prefix = "T"

    def __init__(self):
        self.calls = 0

    def __call__(self, sample):
        self.calls += 1
        return (self.prefix, sample)


def _identity(batch):
    return batch


def _reader(sd, order, conn):
    try:
        import pickle
        out = [(i, sd[i]) for i in order]
        # plain pickle (by value): torch's fd-sharing reduction would need this process to stay alive
        conn.send(("ok", pickle.dumps(out)))
    except Exception as e:  # pragma: no cover
        conn.send(("err", repr(e)))
    finally:
        conn.close()


def _persistent_reader(sd, conn):
    """a long-lived process sharing the cache (like a persistent dataloader worker): forked once, answers read requests for the
    rest of the history - clears issued by the parent in between must reach it"""
    import pickle
    try:
        while True:
            order = conn.recv()
            if order is None:
                break
            try:
                conn.send(("ok", pickle.dumps([(i, sd[i]) for i in order])))
            except Exception as e:  # pragma: no cover
                conn.send(("err", repr(e)))
    except EOFError:
        pass
    finally:
        conn.close()


def check(spec):
    from kappadata.caching import SharedDictDataset
    n = len(spec["payloads"])
    ctx = mp.get_context("fork")
    counter = ctx.Array("i", n)
    base = Base(spec["payloads"], counter, own_transform=spec.get("base_transform", False))
    base.batched = bool(spec.get("base_getitems"))
    tag = Tag() if spec["transform"] else None
    children_before = {c.pid for c in mp.active_children()}
    sd = SharedDictDataset(base, transform=tag)  # (the transform is keyword-only in SharedDictDataset's signature)
    preader = None
    try:
        def expected(i):
            v = build_payload(spec["payloads"][i])
            if spec.get("base_transform", False):
                v = ("B", v)
            return (tag.prefix, v) if tag else v

        def loads():
            return list(counter[:])

        if len(sd) != n:
            raise Violation("len-differs", f"{len(sd)} vs {n}")
        if sd.marker != "base-attribute":
            raise Violation("attribute-not-delegated", "")
        # optionally a deep copy of the cached dataset is made before any access and used side by side with the original
        twin = twin_cached = None
        twin_tagged = False
        if spec.get("twin"):
            import copy as _copy
            twin = _copy.deepcopy(sd)
            twin_cached = set()
            twin_tagged = tag is not None
            if not isinstance(twin, type(sd)) or twin.dataset is base or not twin.dataset.__dict__.get("twin"):
                raise Violation("deepcopy-of-cached-dataset-is-not-an-independent-cached-dataset", type(twin).__name__)
        cached = set()
        accesses = 0
        seen_seq = []
        flags = set()
        reaccess_after_clear = False
        cleared_since = set()
        for op in spec["ops"]:
            k = op[0]
            before = loads()
            if k in ("get", "many"):
                order = [op[1] % n] if k == "get" else [a % n for a in op[1]]
                for i in order:
                    b = loads()
                    # python ints and the numpy integers an index array / permutation hands out address the same cache entry
                    got = sd[{0: int, 1: np.int64, 2: np.int32}[(op[3] if k == "get" and len(op) > 3 else 0)](i)]
                    accesses += 1
                    if not treg.out_equal(got, expected(i)):
                        raise Violation("observation-differs-from-wrapped-dataset", f"index {i}: {got!r} vs {expected(i)!r}"[:300])
                    a = loads()
                    delta = a[i] - b[i]
                    if i in cached and delta != 0:
                        raise Violation("cached-sample-loaded-again", f"index {i} loaded {delta} more time(s) although cached")
                    if i not in cached and delta != 1:
                        raise Violation("uncached-sample-not-loaded-exactly-once", f"index {i}: {delta} loads")
                    if any(a[j] != b[j] for j in range(n) if j != i):
                        raise Violation("other-sample-loaded", f"access {i}: loads {b} -> {a}")
                    if i in cleared_since:
                        reaccess_after_clear = True
                        cleared_since.discard(i)
                    cached.add(i)
                    seen_seq.append(i)
                if tag and tag.calls != accesses:
                    raise Violation("transform-not-applied-on-every-access", f"{tag.calls} transform calls for {accesses} accesses")
            elif k == "copy":
                import copy
                try:
                    sd = copy.copy(sd)
                except RecursionError as e:
                    raise Violation("copy-of-cached-dataset-fails:RecursionError", "copy.copy(cached dataset) recursed (attribute delegation before "
                                                                                   "the instance is initialised) - unpickling in spawned readers fails alike")
                if len(sd) != n:
                    raise Violation("len-differs", "after copy")
                flags.add("copy")
            elif k == "oob":
                # beyond either end: n + k, or (odd k) -n - 1 - k
                j = n + op[1] if op[1] % 2 == 0 else -n - 1 - op[1]
                try:
                    got = sd[j]
                except IndexError:
                    pass
                else:
                    raise Violation("out-of-range-index-answered", f"index {j} of a dataset with {n} samples returned {got!r} (the wrapped dataset raises IndexError)"[:300])
                if loads() != before:
                    raise Violation("out-of-range-index-loads-a-sample", "")
                flags.add("oob")
            elif k == "iterate":
                import itertools
                got = list(itertools.islice(iter(sd), n + 3))
                accesses += len(got)
                if len(got) != n:
                    raise Violation("iteration-length-differs", f"iterating the cached dataset yields {len(got)}{'+' if len(got) > n else ''} samples, the wrapped dataset {n}")
                for i, g_ in enumerate(got):
                    if not treg.out_equal(g_, expected(i)):
                        raise Violation("observation-differs-from-wrapped-dataset", f"iteration index {i}")
                    if i in cleared_since:
                        reaccess_after_clear = True
                        cleared_since.discard(i)
                cached |= set(range(n))
                seen_seq += list(range(n))
                if tag:
                    # the probing access at index n raises before the transform runs
                    if tag.calls != accesses:
                        raise Violation("transform-not-applied-on-every-access", f"{tag.calls} transform calls for {accesses} accesses")
                flags.add("iterate")
            elif k == "retransform":
                # the post-cache transform is exchanged / removed / attached after construction (public attribute): what is set when a sample
                # is requested is what is applied to it
                new = [None, "T", "U"][op[1] % 3]
                if new is None:
                    sd.transform = tag = None
                else:
                    tag = Tag()
                    tag.prefix = new
                    sd.transform = tag
                accesses = 0
                if preader is not None:
                    # a reader forked earlier holds the old configuration: it is retired, the next request forks a new one
                    try:
                        preader[1].send(None)
                    except Exception:
                        pass
                    preader[0].join(5)
                    if preader[0].is_alive():
                        preader[0].kill()
                        preader[0].join(5)
                    preader[1].close()
                    preader = None
                flags.add("retransform")
            elif k in ("tget", "tclear"):
                if twin is None:
                    continue
                tb = list(twin.dataset.counter[:])
                if k == "tclear":
                    twin.dispose()
                    twin_cached = set()
                    flags.add("twin-clear")
                else:
                    i = op[1] % n
                    got = twin[i]
                    v = ("twin", build_payload(spec["payloads"][i]))
                    if spec.get("base_transform", False):
                        v = ("B", v)
                    if twin_tagged:
                        v = ("T", v)
                    if not treg.out_equal(got, v):
                        raise Violation("deep-copy-of-cached-dataset-differs-from-the-dataset-it-wraps", f"index {i}: {got!r} vs {v!r}"[:300])
                    ta = list(twin.dataset.counter[:])
                    want = 0 if i in twin_cached else 1
                    if ta[i] - tb[i] != want or any(ta[j] != tb[j] for j in range(n) if j != i):
                        raise Violation("deep-copy-of-cached-dataset-load-count", f"index {i}: loads {tb} -> {ta}, expected +{want} "
                                                                                   f"(cached in the copy: {sorted(twin_cached)}; the original was "
                                                                                   f"{'cleared' if 'clear' in flags else 'not cleared'} before)")
                    twin_cached.add(i)
                    flags.add("twin")
                if loads() != before:
                    raise Violation("access-to-the-deep-copy-loads-through-the-original", f"{before} -> {loads()}")
            elif k == "loader":
                # the consumer the cache is made for: a DataLoader (in-process) with a batch size and an index order that may repeat
                # an index inside one batch (sampling with replacement)
                order = [a % n for a in op[1]]
                loader = torch.utils.data.DataLoader(sd, batch_size=op[2], sampler=order, num_workers=0, collate_fn=_identity)
                got = [v for batch in loader for v in batch]
                accesses += len(got)
                if len(got) != len(order):
                    raise Violation("loader-yields-wrong-number-of-samples", f"{len(got)} for {len(order)} indices")
                for i, g_ in zip(order, got):
                    if not treg.out_equal(g_, expected(i)):
                        raise Violation("observation-differs-from-wrapped-dataset:loader", f"index {i}: {g_!r} vs {expected(i)!r}"[:300])
                after = loads()
                for i in range(n):
                    d = after[i] - before[i]
                    want = 1 if (i in order and i not in cached) else 0
                    if d != want:
                        raise Violation("loader-load-count", f"index {i}: +{d} loads through a DataLoader (batch size {op[2]}, order {order}), "
                                                             f"expected +{want} ({'cached before' if i in cached else 'not cached before'})")
                for i in order:
                    if i in cleared_since:
                        reaccess_after_clear = True
                        cleared_since.discard(i)
                cached |= set(order)
                seen_seq += order
                if tag and tag.calls != accesses:
                    raise Violation("transform-not-applied-on-every-access", f"{tag.calls} transform calls for {accesses} accesses")
                flags.add("loader")
            elif k == "pread":
                import pickle
                if preader is None:
                    pc, cc = ctx.Pipe(duplex=True)
                    proc = ctx.Process(target=_persistent_reader, args=(sd, cc))
                    proc.start()
                    cc.close()
                    preader = (proc, pc)
                order = [a % n for a in op[1]]
                preader[1].send(order)
                if not preader[1].poll(60):
                    raise Violation("reader-process-failed:persistent", "no answer within 60 s")
                status, out = preader[1].recv()
                if status != "ok":
                    raise Violation("reader-process-failed:persistent", str(out)[:200])
                for i, got in pickle.loads(out):
                    if not treg.out_equal(got, expected(i)):
                        raise Violation("reader-observation-differs:persistent", f"index {i}: {got!r} vs {expected(i)!r}"[:300])
                after = loads()
                for i in range(n):
                    d = after[i] - before[i]
                    want = 1 if (i in order and i not in cached) else 0
                    if d != want:
                        if i in cleared_since and i in order and d == 0:
                            raise Violation("clear-does-not-reach-a-process-sharing-the-cache", f"index {i} was cleared by the parent, a reader forked "
                                                                                               f"before the clear still gets it without a load")
                        raise Violation("persistent-reader-load-count", f"index {i}: +{d} loads, expected +{want}")
                for i in order:
                    if i in cleared_since:
                        reaccess_after_clear = True
                        cleared_since.discard(i)
                cached |= set(order)
                seen_seq += order
                flags.add("persistent-reader")
            elif k == "clear":
                sd.dispose()
                cleared_since |= cached
                cached = set()
                flags.add("clear")
                if loads() != before:
                    raise Violation("clear-loads-samples", "")
            elif k == "readers":
                orders = [[a % n for a in o] for o in op[1]]
                R = len(orders)
                procs, conns = [], []
                for o in orders:
                    pc, cc = ctx.Pipe(duplex=False)
                    p = ctx.Process(target=_reader, args=(sd, o, cc))
                    p.start()
                    cc.close()
                    procs.append(p)
                    conns.append(pc)
                results = []
                for p, c in zip(procs, conns):
                    if c.poll(60):
                        results.append(c.recv())
                    else:
                        results.append(("err", "reader timed out"))
                    p.join(10)
                    if p.is_alive():
                        p.kill()
                import pickle
                for (status, out), o in zip(results, orders):
                    if status != "ok":
                        raise Violation("reader-process-failed", str(out)[:200])
                    out = pickle.loads(out)
                    if [i for i, _ in out] != o:
                        raise Violation("reader-order", "")
                    for i, got in out:
                        if not treg.out_equal(got, expected(i)):
                            raise Violation("reader-observation-differs", f"index {i}: {got!r} vs {expected(i)!r}"[:300])
                after = loads()
                touched = {i for o in orders for i in o}
                for i in range(n):
                    d = after[i] - before[i]
                    readers_touching = sum(1 for o in orders if i in o)
                    if i in cached and d != 0:
                        raise Violation("cached-sample-loaded-again:readers", f"index {i}: +{d}")
                    if i not in touched and d != 0:
                        raise Violation("other-sample-loaded:readers", f"index {i}: +{d}")
                    if i in touched and i not in cached and not (1 <= d <= readers_touching):
                        raise Violation("reader-load-count", f"index {i}: +{d} loads with {readers_touching} readers touching it")
                for i in touched:
                    if i in cleared_since:
                        reaccess_after_clear = True
                        cleared_since.discard(i)
                cached |= touched
                flags.add("readers")
        repeat = len(set(seen_seq)) < len(seen_seq)
        nt = repeat or reaccess_after_clear or "readers" in flags
        labels = sorted(flags) + (["repeat"] if repeat else []) + (["reaccess-after-clear"] if reaccess_after_clear else []) \
            + (["transform"] if tag else [])
        return Case(nt, labels, max(1, accesses))
    finally:
        if preader is not None:
            try:
                preader[1].send(None)
            except Exception:
                pass
            preader[0].join(5)
            if preader[0].is_alive():
                preader[0].kill()
                preader[0].join(5)
            preader[1].close()
        # the manager process behind the cache goes away with the last reference to the cached dataset (no private attribute is touched)
        del sd
        import gc
        gc.collect()
        # whatever the code under test still keeps alive (a server process that outlives its dataset) must not outlive the case
        for c in mp.active_children():
            if c.pid not in children_before:
                c.terminate()
                c.join(5)


class KeyedBase(torch.utils.data.Dataset):
    """a map-style dataset addressed by arbitrary hashable keys (torch allows that): the key decides the sample"""

    def __init__(self, keys):
        self.keys, self.loads = list(keys), []

    def __len__(self):
        return len(self.keys)

    def __getitem__(self, k):
        if k not in self.keys:
            raise KeyError(k)
        self.loads.append(k)
        return ("sample-of", k)


def _key(spec):
    t, v = spec
    return {"int": int, "float": float, "str": str, "tuple": tuple, "bool": bool}[t](v)


def check_keyed(spec):
    """the cache is keyed by what the caller asks for: keys that are not integers (fractions, strings, tuples) address their own
    samples, each loaded at most once between clears"""
    from kappadata.caching import SharedDictDataset
    keys = []
    for ks in spec["keys"]:
        k = _key(ks)
        if not any(k == q and type(k) is type(q) for q in keys) and not any(k == q for q in keys):
            keys.append(k)  # keys that compare equal (1 / 1.0 / True) are one key for any dict: one representative only
    base = KeyedBase(keys)
    children_before = {c.pid for c in mp.active_children()}
    sd = SharedDictDataset(base)
    try:
        cached, n_acc = set(), 0
        for a in spec["ops"]:
            if a == "clear":
                sd.dispose()
                cached = set()
                continue
            k = keys[a % len(keys)]
            before = len(base.loads)
            got = sd[k]
            n_acc += 1
            if got != ("sample-of", k) or type(got[1]) is not type(k):
                raise Violation("keyed:observation-differs-from-wrapped-dataset", f"cached[{k!r}] = {got!r}, wrapped[{k!r}] = {('sample-of', k)!r}")
            d = len(base.loads) - before
            if (k in cached and d != 0) or (k not in cached and d != 1):
                raise Violation("keyed:load-count", f"key {k!r}: {d} loads, {'cached before' if k in cached else 'not cached before'}")
            cached.add(k)
        kinds = {type(k).__name__ for k in keys}
        return Case(len(kinds) >= 2 and n_acc >= 2, sorted(kinds), max(1, n_acc))
    finally:
        del sd
        import gc
        gc.collect()
        for c in mp.active_children():
            if c.pid not in children_before:
                c.terminate()
                c.join(5)


KEYS = st.lists(st.one_of(st.tuples(st.just("int"), st.integers(-3, 6)), st.tuples(st.just("float"), st.sampled_from([0.25, 0.5, 0.75, 1.5, 2.5, -0.5])),
                          st.tuples(st.just("str"), st.sampled_from(["a", "b", "0", "1", "frame_1"])),
                          st.tuples(st.just("tuple"), st.lists(st.integers(0, 2), min_size=1, max_size=2))), min_size=1, max_size=6)
KEYED = st.fixed_dictionaries({"keys": KEYS, "ops": st.lists(st.one_of(st.integers(0, 30), st.integers(0, 30), st.integers(0, 30), st.just("clear")),
                                                              min_size=1, max_size=10)})


@st.composite
def op(draw, tier):
    k = draw(st.sampled_from(["get", "get", "get", "many", "clear", "oob", "iterate", "copy", "pread", "loader", "tget", "tget", "tclear", "retransform"] + (["readers"] if tier == "thorough" else ["readers"] * 0)))
    if k == "get":
        return ["get", draw(st.integers(0, 30)), None, draw(st.sampled_from([0, 0, 1, 2]))]
    if k == "many":
        return ["many", draw(st.lists(st.integers(0, 30), min_size=1, max_size=6))]
    if k == "clear":
        return ["clear"]
    if k == "oob":
        return ["oob", draw(st.integers(0, 5))]
    if k == "retransform":
        return ["retransform", draw(st.integers(0, 8))]
    if k == "tget":
        return ["tget", draw(st.integers(0, 30))]
    if k == "tclear":
        return ["tclear"]
    if k == "loader":
        return ["loader", draw(st.lists(st.integers(0, 30), min_size=1, max_size=8)), draw(st.integers(1, 4))]
    if k == "pread":
        return ["pread", draw(st.lists(st.integers(0, 30), min_size=1, max_size=4, unique=True))]
    if k == "iterate":
        return ["iterate"]
    if k == "copy":
        return ["copy"]
    R = draw(st.sampled_from([2, 3]))
    return ["readers", [draw(st.lists(st.integers(0, 30), min_size=1, max_size=5)) for _ in range(R)]]


@st.composite
def spec_s(draw, tier, with_readers):
    payloads = draw(st.lists(PAYLOAD, min_size=1, max_size=8))
    ops = draw(st.lists(op("thorough" if with_readers else "quick"), min_size=2, max_size=30 if not with_readers else 12))
    return {"payloads": payloads, "transform": draw(st.booleans()), "base_transform": draw(st.booleans()), "base_getitems": draw(st.booleans()), "twin": draw(st.booleans()), "ops": ops}


FACETS = [
    Facet("keyed-datasets", guarded("cache", check_keyed), strategy=lambda tier: KEYED, budget={"quick": 60, "thorough": 400},
          shards={"quick": 2, "thorough": 4}, min_nontrivial={"quick": 10, "thorough": 60}, case_timeout=60),
    Facet("sequential-histories", guarded("cache", check), strategy=lambda tier: spec_s(tier, False), budget={"quick": 1200, "thorough": 3000},
          shards={"quick": 10, "thorough": 16}, min_nontrivial={"quick": 100, "thorough": 1000}, case_timeout=120),
    Facet("concurrent-readers", guarded("cache", check), strategy=lambda tier: spec_s(tier, True), budget={"quick": 120, "thorough": 800},
          shards={"quick": 6, "thorough": 16}, min_nontrivial={"quick": 20, "thorough": 250}, case_timeout=180),
]
