"""C01 - the mode string decides exactly which items a sample has, and in which order."""
import itertools

import numpy as np
import torch
from hypothesis import strategies as st

from vlib import stacks as S
from vlib.core import Case, Facet, Refused, Violation, guarded

# thorough-tier budgets of every facet are multiplied by this factor (sized for ~5-8 min on 16 cores)
THOROUGH_SCALE = 6
LEVEL = "exploration"
RULE = ("spec = dataset stack (C02 generator; optionally topped by a harness *fused* wrapper declaring 1-2 groups of jointly "
        "loaded items with per-call nonces) + mode drawn as a sequence of 1-6 items over {x,class,aux,aux2,index,ctx.<key> "
        "after the recording item} (duplicates allowed for non-fused items) + return_ctx + an access history of 1-8 index "
        "forms (int incl. negative, slice, list, iteration, len); oracle = reference evaluation of the stack per item, joint "
        "nonce consistency for fused groups, exact ctx equality; further facets: exhaustive permutations of <=4 of 5 items over "
        "4 fused layouts, TorchWrapper, shipped XTransformWrapper(KDMixWrapper), static helper round-trips; non-trivial = >=2 items and "
        "(fused group split/reordered in the mode, or a ctx.* item, or a negative/slice/list access, or history length >=2)")
ASSUMPTIONS = ["'ctx.<key>' items are placed after the item that records the key (domain of C01)",
               "for stacks declaring fused items the outermost wrapper implements every item (the constructor rejects others)"]

FUSED_LAYOUTS = [[["x", "class"]], [["class", "x"]], [["x", "aux"]], [["x", "class"], ["aux", "aux2"]], [["aux", "x", "class"]]]


def _strip(v):
    """drop nonces from (possibly nested) fused values"""
    if isinstance(v, tuple) and len(v) == 5 and v[0] == "f":
        return ("f", v[1], v[2], None, _strip(v[4]))
    if isinstance(v, tuple):
        return tuple(_strip(x) for x in v)
    return v


def _expected(ref, items, i, n, want_ctx):
    ctx = {}
    vals = []
    for it in items:
        if it == "index":
            vals.append(i)
        elif it.startswith("ctx."):
            key = it[4:]
            if key not in ctx:
                raise Refused("ctx item before its recording item")
            vals.append(ctx[key])
        else:
            vals.append(S.ref_item(ref, it, i, ctx))
    return vals, ctx


def _check_sample(got, spec, ref, top, i, n):
    items = spec["mode"]
    exp_vals, exp_ctx = _expected(ref, items, i, n, spec["return_ctx"])
    if spec["return_ctx"]:
        if not (isinstance(got, tuple) and len(got) == 2 and isinstance(got[1], dict)):
            raise Violation("return-ctx-shape", f"expected (items, ctx), got {type(got).__name__}: {got!r}"[:200])
        got_items, got_ctx = got
        if got_ctx != exp_ctx:
            extra = set(got_ctx) - set(exp_ctx)
            sig = "ctx-foreign-entries" if extra else "ctx-differs"
            raise Violation(sig, f"sample {i}: ctx {got_ctx} expected {exp_ctx}")
    else:
        got_items = got
    if len(items) == 1:
        if isinstance(got_items, tuple) and not isinstance(exp_vals[0], tuple):
            raise Violation("single-item-not-bare", repr(got_items)[:120])
        got_list = [got_items]
    else:
        if not isinstance(got_items, tuple):
            raise Violation("multi-item-not-tuple", type(got_items).__name__)
        got_list = list(got_items)
    if len(got_list) != len(items):
        raise Violation("wrong-arity", f"{len(got_list)} values for mode {' '.join(items)}")
    for p, (g, e, it) in enumerate(zip(got_list, exp_vals, items)):
        if _strip(g) != e:
            raise Violation(f"wrong-value:{'fused' if spec.get('fused') else 'plain'}:{it.split('.')[0]}",
                            f"sample {i} position {p} ({it}): got {g!r} expected {e!r}")
    # joint consistency of fused groups
    if spec.get("fused"):
        for g in spec["fused"]["groups"]:
            if all(m in items for m in g):
                # the group is fused on the first occurrences of its members
                nonces = []
                for m in g:
                    v = got_list[items.index(m)]
                    nonces.append(v[3])
                if len(set(nonces)) != 1:
                    raise Violation("fused-members-from-different-loads", f"group {g}: nonces {nonces} in mode {' '.join(items)}")
                if nonces[0] not in top.joint_nonces:
                    raise Violation("fused-members-not-loaded-jointly", f"group {g}: nonce {nonces[0]} is not from the joint loader")


def check(spec):
    from kappadata.wrappers import ModeWrapper
    stack_spec = spec["stack"]
    if spec.get("fused"):
        stack_spec = {"t": "fused", "wid": 7, "groups": spec["fused"]["groups"], "child": stack_spec}
    try:
        ds, ref = S.build(stack_spec)
    except S.ShippedCtorRefused as e:
        raise Refused("shipped subset constructor")
    n = S.ref_len(ref)
    mode = " ".join(spec["mode"])
    # domain: ctx items after the recording item
    try:
        if n:
            _expected(ref, spec["mode"], 0, n, True)
    except Refused:
        raise
    try:
        mw = ModeWrapper(ds, mode=mode, return_ctx=spec["return_ctx"])
    except AssertionError:
        raise Refused("ModeWrapper constructor assertion")
    top = ds
    if len(mw) != n:
        raise Violation("len-differs", f"{len(mw)} vs {n}")
    hist_kinds = set()
    evals = 0
    for acc in spec["history"]:
        kind = acc[0]
        hist_kinds.add(kind)
        if kind == "int":
            if n == 0:
                continue
            i = acc[1] % n if acc[1] >= 0 else -1 - ((-acc[1] - 1) % n)
            form = acc[2] if len(acc) > 2 else "py"
            key = {"py": int, "np": np.int64, "np32": np.int32, "t0": torch.tensor}[form](i)
            _check_sample(mw[key], spec, ref, top, i + n if i < 0 else i, n)
            evals += 1
        elif kind == "oob":
            # an index >= len is not answered with some other sample (the wrapped datasets raise, so does the wrapper); indices below
            # -len are outside this check: the wrapper adds len once and hands the still negative index on, which the wrapped
            # containers answer by their own negative indexing - existing behaviour that C01 does not speak about
            j = n + acc[1]
            if not any(it in ("x", "class", "aux", "aux2") for it in spec["mode"]):
                continue  # a mode made of `index` / ctx items only never touches the wrapped dataset
            try:
                got = mw[j]
            except Exception:
                pass
            else:
                raise Violation("out-of-range-index-answered", f"index {j} of a dataset with {n} samples returned {got!r}"[:300])
            evals += 1
        elif kind == "slice":
            sl = slice(acc[1], acc[2], acc[3])
            got = mw[sl]
            idxs = list(range(n))[sl]
            if not isinstance(got, list) or len(got) != len(idxs):
                raise Violation("slice-semantics", f"mw[{sl}] returned {len(got) if hasattr(got, '__len__') else got} items, expected {len(idxs)}")
            for g, i in zip(got, idxs):
                _check_sample(g, spec, ref, top, i, n)
                evals += 1
        elif kind == "list":
            if n == 0:
                continue
            idxs = [(a % n if a >= 0 else -1 - ((-a - 1) % n)) for a in acc[1]]
            got = mw[idxs]
            if not isinstance(got, list) or len(got) != len(idxs):
                raise Violation("list-semantics", "")
            for g, i in zip(got, idxs):
                _check_sample(g, spec, ref, top, i + n if i < 0 else i, n)
                evals += 1
        elif kind == "iter":
            got = list(itertools.islice(iter(mw), n + 3))
            if len(got) != n:
                raise Violation("iter-length", f"{len(got)} vs {n}")
            for i, g in enumerate(got):
                _check_sample(g, spec, ref, top, i, n)
                evals += 1
        elif kind == "len":
            if len(mw) != n:
                raise Violation("len-differs", "")
    items = spec["mode"]
    split = False
    if spec.get("fused"):
        for g in spec["fused"]["groups"]:
            if all(m in items for m in g):
                pos = [items.index(m) for m in g]
                if pos != list(range(pos[0], pos[0] + len(g))):
                    split = True
    nt = len(items) >= 2 and (split or any(it.startswith("ctx.") for it in items)
                              or bool(hist_kinds & {"slice", "list"}) or any(a[0] == "int" and a[1] < 0 for a in spec["history"])
                              or len(spec["history"]) >= 2)
    labels = ["fused" if spec.get("fused") else "plain", "items=%d" % len(items)] + sorted(hist_kinds)
    if split:
        labels.append("fused-split-or-reordered")
    if spec["return_ctx"]:
        labels.append("return_ctx")
    if any(it.startswith("ctx.") for it in items):
        labels.append("ctx-item")
    return Case(nt and n > 0, labels, max(1, evals))


# ------------------------------------------------------------------------------------------ strategies
def _ctx_keys(stack_spec, fused):
    """ctx keys recorded by item x (root and tag wrappers on the path of *every* sample: linear part only)"""
    # the root records under a key that itself contains "ctx." (as a transform built with ctx_prefix="..._ctx" does): the mode item
    # "ctx.<key>" names the key after the first "ctx." only
    keys = {"x": ["root_ctx.x"]}
    s = stack_spec
    while s["t"] not in ("root", "concat"):
        if s["t"] == "wrap" and s["kind"] == "tag":
            keys["x"].append(f"tag{s['wid']}")
        s = s["child"]
    if fused:
        for g in fused["groups"]:
            for m in g:
                keys.setdefault(m, []).append(f"f7.{m}")
    return keys


@st.composite
def access(draw):
    k = draw(st.sampled_from(["int", "int", "int", "slice", "list", "iter", "len", "oob"]))
    if k == "int":
        # python ints, and the integer types samplers and index arrays hand out (numpy scalars, 0-d tensors)
        return ["int", draw(st.integers(-40, 40)), draw(st.sampled_from(["py", "py", "np", "np32", "t0"]))]
    if k == "oob":
        return ["oob", draw(st.integers(0, 5)), draw(st.booleans())]
    if k == "slice":
        return ["slice", draw(st.one_of(st.none(), st.integers(-14, 14))), draw(st.one_of(st.none(), st.integers(-14, 14))),
                draw(st.sampled_from([None, 1, 2, 3, -1, -2]))]
    if k == "list":
        return ["list", draw(st.lists(st.integers(-40, 40), max_size=4))]
    return [k]


@st.composite
def mode_spec(draw):
    stack = draw(S.stack_spec(max_depth=3, allow_balanced=False, allow_shipped=False))
    fused = None
    if draw(st.booleans()):
        fused = {"groups": draw(st.sampled_from(FUSED_LAYOUTS))}
    keys = _ctx_keys(stack, fused)
    fused_members = {m for g in (fused["groups"] if fused else []) for m in g}
    n_items = draw(st.sampled_from([1, 2, 2, 3, 3, 4, 4, 5, 6]))
    mode = []
    for _ in range(n_items):
        avail = ["x", "class", "aux", "aux2", "index"]
        ctx_avail = [f"ctx.{k}" for it in mode if it in keys for k in keys[it]]
        if ctx_avail and draw(st.integers(0, 2)) == 0:
            mode.append(draw(st.sampled_from(sorted(set(ctx_avail)))))
            continue
        it = draw(st.sampled_from(avail))
        mode.append(it)  # repeats included, also of jointly loaded items (every slot of the mode is filled with the item it names)
    return {"stack": stack, "fused": fused, "mode": mode, "return_ctx": draw(st.booleans()),
            "history": draw(st.lists(access(), min_size=1, max_size=8))}


def enumerate_perms(tier):
    items = ["x", "class", "aux", "aux2", "index"]
    sizes = (3, 5) if tier == "quick" else (1, 2, 4, 7)
    for layout in FUSED_LAYOUTS[:4]:
        for r in (1, 2, 3, 4):
            for perm in itertools.permutations(items, r):
                for n in sizes:
                    yield {"stack": {"t": "root", "id": 1, "n": n, "C": 3, "lay": 0, "bulk": "list"},
                           "fused": {"groups": layout}, "mode": list(perm), "return_ctx": (len(perm) + n) % 2 == 0,
                           "history": [["int", n - 1], ["int", -1], ["slice", None, None, 2]]}


def enumerate_repeats(tier):
    """modes that name a whole jointly loaded group twice (and orders around it)"""
    for layout in FUSED_LAYOUTS:
        g = layout[0]
        for mode in (g + g, g + ["index"] + g[::-1], g[::-1] + g, g + g[:1], g[:1] + g, g + ["index"] + g, ["index"] + g + g + ["aux2"]):
            for n in (3, 5):
                yield {"stack": {"t": "root", "id": 1, "n": n, "C": 3, "lay": 0, "bulk": "list"},
                       "fused": {"groups": layout}, "mode": list(mode), "return_ctx": (len(mode) + n) % 2 == 0,
                       "history": [["int", n - 1], ["int", -1], ["slice", None, None, 2]]}


# ---- TorchWrapper
class TupleDataset(torch.utils.data.Dataset):
    def __init__(self, n, width):
        self.n, self.width = n, width

    def __len__(self):
        return self.n

    def __getitem__(self, i):
        return tuple(("col%d" % c, i) for c in range(self.width))


def check_torchwrapper(spec):
    from kappadata.wrappers import ModeWrapper, TorchWrapper
    names = ["x", "class", "aux", "aux2"][:spec["width"]]
    tw = TorchWrapper(TupleDataset(spec["n"], spec["width"]), mode=" ".join(names))
    mode = [names[k % len(names)] if isinstance(k, int) else k for k in spec["mode"]]
    mw = ModeWrapper(tw, mode=" ".join(mode), return_ctx=spec["return_ctx"])
    if len(mw) != spec["n"]:
        raise Violation("torchwrapper-len", "")
    for i in spec["idx"]:
        i = i % spec["n"]
        got = mw[i]
        if spec["return_ctx"]:
            got, ctx = got
            if ctx != {}:
                raise Violation("torchwrapper-ctx", str(ctx))
        exp = [i if it == "index" else ("col%d" % names.index(it), i) for it in mode]
        got_list = [got] if len(mode) == 1 else list(got)
        if len(mode) > 1 and not isinstance(got, tuple):
            raise Violation("multi-item-not-tuple", "")
        if got_list != exp:
            raise Violation("torchwrapper-wrong-value", f"mode {mode} sample {i}: {got_list} expected {exp}")
    return Case(len(mode) >= 2, ["width=%d" % spec["width"]], len(spec["idx"]))


@st.composite
def torch_spec(draw):
    width = draw(st.integers(1, 4))
    return {"n": draw(st.integers(1, 9)), "width": width,
            "mode": draw(st.lists(st.one_of(st.integers(0, 3), st.just("index")), min_size=1, max_size=5)),
            "return_ctx": draw(st.booleans()), "idx": draw(st.lists(st.integers(0, 30), min_size=1, max_size=4))}


# ---- shipped fused wrapper: XTransformWrapper(KDMixWrapper(TensorRoot, seed))
class TensorRoot(S.TokenRoot):
    def getitem_x(self, idx, ctx=None):
        j = self._norm(idx)
        g = torch.Generator().manual_seed(1000 * self.root_id + j)
        return torch.rand(2, 3, generator=g) + j

    def getshape_class(self):
        return (max(2, self.C),)


def check_shipped_fused(spec):
    from kappadata.wrappers import KDMixWrapper, ModeWrapper, XTransformWrapper

    def make():
        root = TensorRoot(spec["id"], spec["n"], spec["C"], "list", 0)
        ds = KDMixWrapper(root, mixup_p=spec["p"], mixup_alpha=spec["alpha"], seed=spec["seed"])
        if spec["xtw"]:
            ds = XTransformWrapper(ds, transform=_Scale(), seed=spec["seed"] + 1)
        return ds
    mode = spec["mode"]
    mw = ModeWrapper(make(), mode=" ".join(mode), return_ctx=spec["return_ctx"])
    ref = make()
    n_mixed = 0
    for i in spec["idx"]:
        i = i % spec["n"]
        got = mw[i]
        if spec["return_ctx"]:
            got, _ = got
        got_list = [got] if len(mode) == 1 else list(got)
        ex, ec = ref.getitem_xclass(i)
        for it, g in zip(mode, got_list):
            if it == "index":
                ok = g == i
            elif it == "x":
                ok = torch.equal(g, ex)
            else:
                ok = torch.equal(g, ec)
            if not ok:
                raise Violation(f"shipped-fused-wrong-value:{it}", f"mode {mode} sample {i}: {it} differs from the joint load")
        if (ec > 0).sum() > 1:
            n_mixed += 1
    return Case(len(mode) >= 2 and n_mixed > 0, ["xtw" if spec["xtw"] else "mix-only", "mode=" + "_".join(mode)], len(spec["idx"]))


class _Scale:
    def __call__(self, x, ctx=None):
        return x * 2 + 1


@st.composite
def shipped_spec(draw):
    return {"id": draw(st.integers(0, 5)), "n": draw(st.integers(2, 9)), "C": draw(st.integers(2, 4)),
            "p": draw(st.sampled_from([1.0, 0.7])), "alpha": draw(st.sampled_from([0.8, 1.0, 2.0])),
            "seed": draw(st.integers(0, 999)), "xtw": draw(st.booleans()),
            "mode": draw(st.sampled_from([["x", "class"], ["class", "x"], ["x"], ["class"], ["index", "x", "class"],
                                          ["class", "index", "x"], ["x", "index"], ["class", "x", "index"]])),
            "return_ctx": draw(st.booleans()), "idx": draw(st.lists(st.integers(0, 30), min_size=1, max_size=5))}


# ---- static helpers
def check_static(spec):
    from kappadata.wrappers import ModeWrapper as MW
    items = spec["items"]
    mode = " ".join(items)
    batch = tuple(("v", k) for k in range(len(items)))
    for k, it in enumerate(items):
        if not MW.has_item(mode, it):
            raise Violation("static:has_item", it)
        if MW.get_item_index(mode, it) != items.index(it):
            raise Violation("static:get_item_index", it)
        if len(items) > 1:
            if MW.get_item(mode, it, batch) is not batch[items.index(it)]:
                raise Violation("static:get_item", it)
            marker = object()
            nb = MW.set_item(mode, it, batch, marker)
            if MW.get_item(mode, it, nb) is not marker:
                raise Violation("static:set-get-roundtrip", it)
            for j in range(len(items)):
                if j != items.index(it) and nb[j] is not batch[j]:
                    raise Violation("static:set_item-touches-others", it)
    if MW.has_item(mode, "nope"):
        raise Violation("static:has_item-false-positive", "")
    if MW.add_item(mode, items[0]) != mode or MW.add_item(mode, "nope").split(" ") != items + ["nope"]:
        raise Violation("static:add_item", "")
    if len(items) == 1 and MW.get_item(mode, items[0], "bare") != "bare":
        raise Violation("static:get_item-bare", "")
    if len(items) == 1:
        marker = object()
        bare = torch.zeros(3, 2)
        if MW.get_item(mode, items[0], MW.set_item(mode, items[0], bare, marker)) is not marker:
            raise Violation("static:set-get-roundtrip-bare-batch", "set_item on a single-item (bare) batch does not return the value")
    return Case(len(items) >= 2, [], 1)


FACETS = [
    Facet("modes", guarded("modes", check), strategy=lambda tier: mode_spec(),
          budget={"quick": 4000, "thorough": 60000}, shards={"quick": 8, "thorough": 16},
          min_nontrivial={"quick": 600, "thorough": 6000}),
    Facet("fused-permutations", guarded("modes", check), enumerate=enumerate_perms, exhaustive=True, shards={"quick": 4, "thorough": 8},
          min_nontrivial={"quick": 300, "thorough": 600}),
    Facet("fused-repeats", guarded("modes", check), enumerate=enumerate_repeats, exhaustive=True, shards={"quick": 1, "thorough": 1},
          min_nontrivial={"quick": 20, "thorough": 20}),
    Facet("torchwrapper", check_torchwrapper, strategy=lambda tier: torch_spec(),
          budget={"quick": 500, "thorough": 5000}, shards={"quick": 1, "thorough": 4}, min_nontrivial={"quick": 100, "thorough": 500}),
    Facet("shipped-fused", check_shipped_fused, strategy=lambda tier: shipped_spec(),
          budget={"quick": 500, "thorough": 6000}, shards={"quick": 2, "thorough": 6}, min_nontrivial={"quick": 100, "thorough": 800}),
    Facet("static-helpers", check_static,
          strategy=lambda tier: st.fixed_dictionaries({"items": st.lists(st.sampled_from(["x", "class", "aux", "index", "ctx.k", "y"]),
                                                                        min_size=1, max_size=5, unique=True)}),
          budget={"quick": 300, "thorough": 2000}, shards={"quick": 1, "thorough": 2}, min_nontrivial={"quick": 50, "thorough": 100}),
]
