"""C16 - label-rewriting wrappers are coherent, in range and reproducible."""
import math
import random

import numpy as np
import torch
from hypothesis import strategies as st

from checks.c03_dataset_wrappers import ClassRoot, layout, with_layout
from vlib.core import Case, Facet, Refused, Violation, guarded

# thorough-tier budgets of every facet are multiplied by this factor (sized for ~5-8 min on 16 cores)
THOROUGH_SCALE = 6
LEVEL = "exploration"
RULE = ("spec = explicit label layout (n 1..48, C 1..8, absent / single-sample classes, -1 labels where the wrapper handles "
        "them; bulk accessor returning a new list, the root's internal list, an ndarray or a tensor) + wrapper arguments (group "
        "sizes dividing C, superclass sizes/splits, swap p incl. 0 and 1, overwrite tables, world sizes <= n, pseudo-label tables "
        "hard/soft/thresholded/top-k, random-class modes, semi percent incl. 0/1, smoothing in [0,1]); oracle = bulk==per-sample, "
        "labels in [0, getshape_class) or -1, x/len/root labels untouched, equal labels under two global RNG states, plus the "
        "wrapper's documented mapping where it has one; encodings non-negative, sum 1, original class attains the max; "
        "non-trivial = absent class, -1 labels, p in {0,1}, world size not dividing n, threshold rejecting some but not all, "
        "internal-list root; distinct = distinct spec hash")
ASSUMPTIONS = ["for the two encoding wrappers (label smoothing, one-hot) the delegated bulk accessor yields hard labels by design; "
               "coherence is checked up to decoding (argmax of the per-sample encoding == bulk label)"]


class InternalListRoot(ClassRoot):
    """bulk kinds 'internal' / 'internal_numpy' / 'internal_tensor' hand out the root's own storage by reference:
    a wrapper must not write into it"""

    def getall_class(self):
        if self.bulk == "internal":
            return self.classes
        if self.bulk == "internal_numpy":
            if "_arr" not in self.__dict__:
                self._arr = np.array(self.classes, dtype=np.int64)
            return self._arr
        if self.bulk == "internal_tensor":
            if "_arr" not in self.__dict__:
                self._arr = torch.tensor(self.classes, dtype=torch.long)
            return self._arr
        return super().getall_class()

    def storage(self):
        if "_arr" in self.__dict__:
            return [int(v) for v in self._arr.tolist()]
        return list(self.classes)


def make_root(spec):
    return InternalListRoot(spec["classes"], spec["C"], spec.get("bulk", "list"))


def _as_int(v):
    if torch.is_tensor(v):
        return v.item()
    if isinstance(v, np.generic):
        return v.item()
    return v


def _aslist(v):
    if torch.is_tensor(v) or isinstance(v, np.ndarray):
        return v.tolist()
    return [_as_int(x) for x in v]


def n_classes_of(w):
    s = w.getshape_class()
    if not (isinstance(s, tuple) and len(s) == 1):
        raise Violation("getshape_class-not-a-1-tuple", repr(s))
    return 2 if s[0] == 1 else int(s[0])


REFUSED = "<refused>"


def common(kind, spec, build, encoding=False, want_bulk=True):
    """builds twice under different global RNG states; returns (wrapper, per-sample labels)"""
    outs = []
    for g in (0, 1):
        np.random.seed(11 + g)
        torch.manual_seed(22 + g)
        random.seed(33 + g)
        root = make_root(spec)
        before = list(root.classes)
        try:
            w = build(root)
        except AssertionError:
            raise Refused(f"{kind}: constructor assertion")
        if g == 1 and spec.get("clone"):
            # the second build travels through deepcopy / pickle (spawn-started workers, checkpointed pipelines) before it is used:
            # the mapping is a function of the constructor arguments and the seed, so the copy must agree with the first build
            import copy
            import pickle
            try:
                w = copy.deepcopy(w) if spec["clone"] == "deepcopy" else pickle.loads(pickle.dumps(w))
            except (pickle.PicklingError, AttributeError, TypeError) as e:
                if spec["clone"] == "deepcopy":
                    raise Violation(f"wrapper-cannot-be-deep-copied:{kind}", repr(e)[:200])
            root = w.root_dataset
        n = len(root)
        if len(w) != n:
            raise Violation(f"len-changed:{kind}", f"{len(w)} vs {n}")
        per = []
        for i in range(n):
            try:
                per.append(w.getitem_class(i))
            except Exception:
                if encoding and before[i] == -1:
                    per.append(REFUSED)  # an encoder may refuse a sample without a label; it must not invent one (see _check_encoding)
                else:
                    raise
        bulk = None
        if want_bulk:
            try:
                bulk = w.getall_class()
            except NotImplementedError:
                bulk = None
        per2 = [REFUSED if (encoding and per[i] is REFUSED) else w.getitem_class(i) for i in range(n)]
        if [w.getitem_x(i) for i in range(n)] != list(range(n)):
            raise Violation(f"x-changed:{kind}", "")
        if root.classes != before or root.storage() != before:
            raise Violation(f"root-labels-mutated:{kind}", f"root labels {before} became {root.classes} / {root.storage()}")
        if [root.getitem_class(i) for i in range(n)] != before:
            raise Violation(f"root-labels-mutated:{kind}", "per-sample root labels changed")
        outs.append((w, per, bulk, per2, root))
    w, per, bulk, per2, root = outs[0]
    if not encoding:
        p1, p2 = [_as_int(v) for v in per], [_as_int(v) for v in per2]
        if p1 != p2:
            raise Violation(f"labels-change-between-calls:{kind}", f"{p1} vs {p2}")
        if p1 != [_as_int(v) for v in outs[1][1]]:
            raise Violation(f"labels-depend-on-global-rng:{kind}", f"{p1} vs {[_as_int(v) for v in outs[1][1]]}")
        C = n_classes_of(w)
        for i, v in enumerate(p1):
            if not (isinstance(v, int) and (v == -1 or 0 <= v < C)):
                raise Violation(f"label-out-of-range:{kind}", f"sample {i}: label {v!r}, getshape_class says {C} classes")
        if bulk is not None:
            b = _aslist(bulk)
            if b != p1:
                raise Violation(f"bulk!=per-sample:{kind}", f"getall_class()={b} per-sample={p1}")
        return w, p1, root
    return w, per, root


# ------------------------------------------------------------------ per-wrapper checks
def nontrivial_layout(spec):
    from collections import Counter
    cnt = Counter(c for c in spec["classes"] if c >= 0)
    return any(cnt.get(c, 0) in (0, 1) for c in range(spec["C"])) or -1 in spec["classes"] or str(spec.get("bulk")).startswith("internal")


def check_class_groups(spec):
    from kappadata.wrappers import ClassGroupsWrapper
    C = spec["C"]
    divs = [d for d in range(1, C + 1) if C % d == 0]
    g = divs[spec["gsel"] % len(divs)]
    w, lab, root = common("ClassGroupsWrapper", spec, lambda r: (
        # seed omitted: the documented default (a fixed seed) applies - identical arguments, identical mapping
        ClassGroupsWrapper(r, classes_per_group=g, shuffle=spec["shuffle"]) if spec.get("seed_form") == "omitted" else
        # documented order: dataset, classes_per_group, shuffle, seed
        ClassGroupsWrapper(r, g, spec["shuffle"], spec["seed"]) if spec.get("call") == "positional" else
        ClassGroupsWrapper(r, classes_per_group=g, shuffle=spec["shuffle"], seed=spec["seed"])))
    # the wrapped dataset's labels are re-configured after construction (public setter of an inner KDRandomClassWrapper): bulk and
    # per-sample accessor of the group wrapper keep agreeing
    from kappadata.wrappers import KDRandomClassWrapper
    root2 = make_root(spec)
    inner = KDRandomClassWrapper(root2, mode="random", num_classes=C, seed=3)
    gw = ClassGroupsWrapper(inner, classes_per_group=g, shuffle=spec["shuffle"], seed=int(spec["seed"]))
    inner.seed = 4
    per_g = [_as_int(gw.getitem_class(i)) for i in range(len(root2))]
    bulk_g = _aslist(gw.getall_class())
    if bulk_g != per_g:
        raise Violation("bulk!=per-sample:ClassGroupsWrapper:after-the-wrapped-labels-were-re-configured", f"getall_class()={bulk_g} per-sample={per_g}")
    # samples of one original class stay inside one group of g consecutive labels
    grp = {}
    for c, l in zip(spec["classes"], lab):
        if grp.setdefault(c, l // g) != l // g:
            raise Violation("class-groups:class-split-over-groups", f"class {c} -> groups {grp[c]} and {l // g}")
    return Case(nontrivial_layout(spec) or g in (1, C), ["g=%d" % g])


def check_random_superclass(spec):
    from kappadata.wrappers import RandomSuperclassWrapper
    C = spec["C"]
    cps = 1 + spec["cps"] % C
    splits = spec["splits"]
    w, lab, root = common("RandomSuperclassWrapper", spec, lambda r: (
        # documented order: dataset, classes_per_superclass, superclass_splits, shuffle, seed
        RandomSuperclassWrapper(r, cps, splits, spec["shuffle"], spec["seed"]) if spec.get("call") == "positional" else
        RandomSuperclassWrapper(r, classes_per_superclass=cps, superclass_splits=splits, shuffle=spec["shuffle"], seed=spec["seed"])))
    nsup = math.ceil(C / cps)
    sup = {}
    for c, l in zip(spec["classes"], lab):
        if sup.setdefault(c, l % nsup) != l % nsup:
            raise Violation("random-superclass:class-in-two-superclasses", f"class {c}")
    from collections import Counter
    members = Counter(sup.values())
    # at most cps original classes per superclass
    per_sup = {}
    for c, s in sup.items():
        per_sup.setdefault(s, set()).add(c)
    if any(len(v) > cps for v in per_sup.values()):
        raise Violation("random-superclass:too-many-classes-merged", str(per_sup))
    return Case(nontrivial_layout(spec) or splits > 1, ["splits=%d" % splits])


def check_swap_label(spec):
    from kappadata.wrappers.dataset_wrappers.swap_label_wrapper import SwapLabelWrapper
    p = spec["p"]
    w, lab, root = common("SwapLabelWrapper", spec, lambda r: (
        SwapLabelWrapper(r, p=p) if spec.get("seed_form") == "omitted" else
        SwapLabelWrapper(r, p, spec["seed"]) if spec.get("call") == "positional" else SwapLabelWrapper(r, p=p, seed=spec["seed"])))
    app = [w.getitem_apply(i) for i in range(len(lab))]
    for i, (a, l) in enumerate(zip(app, lab)):
        if not a and l != spec["classes"][i]:
            raise Violation("swap-label:unswapped-label-changed", f"sample {i}")
    if p == 0 and (any(app) or lab != spec["classes"]):
        raise Violation("swap-label:p=0-swaps", "")
    if p == 1 and not all(app):
        raise Violation("swap-label:p=1-keeps", "")
    return Case(nontrivial_layout(spec) or p in (0, 1), ["p=%s" % ("0" if p == 0 else "1" if p == 1 else "mid")])


def check_overwrite(spec):
    from kappadata.wrappers import OverwriteClassesWrapper
    n, C = len(spec["classes"]), spec["C"]
    rng = np.random.default_rng(spec["k"])
    new = rng.integers(0, max(2, C) if C == 1 else C, size=n).tolist()
    table = torch.tensor(new) if spec["as_tensor"] else new
    w, lab, root = common("OverwriteClassesWrapper", spec, lambda r: OverwriteClassesWrapper(r, classes=table))
    if lab != new:
        raise Violation("overwrite-classes:per-sample", f"{lab} vs {new}")
    return Case(True, ["tensor" if spec["as_tensor"] else "list"])


def check_allgather(spec):
    from kappadata.wrappers import AllgatherClassWrapper
    n = len(spec["classes"])
    W = 1 + spec["W"] % n
    w, lab, root = common("AllgatherClassWrapper", spec, lambda r: AllgatherClassWrapper(r, world_size=W))
    pad = (W - n % W) % W
    idx = list(range(n)) + list(range(pad))
    m = len(idx)
    exp_idx = [idx[r + k * W] for r in range(W) for k in range(m // W)][:n]
    exp = [spec["classes"][j] for j in exp_idx]
    if lab != exp:
        raise Violation("allgather:permutation", f"n={n} W={W}: {lab} expected {exp}")
    return Case(n % W != 0 or nontrivial_layout(spec), ["W|n" if n % W == 0 else "W!|n"])


def check_pseudo_label(spec):
    from kappadata.wrappers import KDPseudoLabelWrapper
    n, C = len(spec["classes"]), max(2, spec["C"])
    spec = dict(spec, C=C, classes=[min(c, C - 1) for c in spec["classes"]])
    rng = np.random.default_rng(spec["k"])
    form = spec["form"]
    if form == "hard":
        table = torch.tensor(rng.integers(0, C, size=n))
        kw = {}
    else:
        table = torch.tensor(rng.normal(size=(n, C)) * spec["scale"], dtype=torch.float32)
        if form == "soft" and spec.get("tab") == "votes":
            # integer vote counts (an ensemble's votes per class) with a unique winner per row
            table = torch.stack([torch.from_numpy(rng.permutation(C)) for _ in range(n)]).long() * 3
        elif form == "soft" and spec.get("tab") == "near_tie":
            # the winner beats the runner-up by one float32 ulp, and the runner-up comes first
            table = torch.tensor(rng.random(size=(n, C)) * 0.2, dtype=torch.float32)
            for i in range(n):
                a, b = sorted(int(v) for v in rng.choice(C, size=2, replace=False))
                table[i, b] = 0.35
                table[i, a] = float(np.nextafter(np.float32(0.35), np.float32(0)))
        kw = {}
        if form == "threshold":
            kw = {"threshold": spec["thr"]}
        elif form == "topk":
            kw = {"topk": 1 + spec["topk"] % C, "tau": spec["tau"], "seed": spec["seed"]}
            if kw["tau"] is None:
                table = table.softmax(dim=1)
    try:
        w, lab, root = common("KDPseudoLabelWrapper", spec, lambda r: KDPseudoLabelWrapper(r, pseudo_labels=table, **kw))
    except ValueError as e:
        if "pvals" in str(e):
            # numpy's multinomial rejects float32 top-k probabilities whose sum exceeds 1 by rounding (topk == C): the sampled
            # label cannot be produced at all - noted in DESIGN.md, outside what C16 states
            raise Refused("numpy multinomial rejects the float32 probabilities")
        raise
    labels = [form]
    nt = True
    if form == "hard":
        exp = table.tolist()
    elif form == "soft":
        exp = table.argmax(dim=1).tolist()
    elif form == "threshold":
        probs = table.softmax(dim=1)
        exp = [int(probs[i].argmax()) if probs[i].max() > spec["thr"] else -1 for i in range(n)]
        rej = exp.count(-1)
        nt = 0 < rej < n
        labels.append("rejects-some" if nt else "rejects-all-or-none")
    else:
        exp = None
        k = kw["topk"]
        for i, l in enumerate(lab):
            if l not in table[i].topk(k=k).indices.tolist():
                raise Violation("pseudo-label:topk-label-outside-topk", f"sample {i}: {l}")
    if exp is not None and lab != exp:
        raise Violation(f"pseudo-label:per-sample:{form}", f"{lab} vs {exp}")
    if form == "threshold":
        # the wrapper is re-configured after its bulk accessor was used (public attribute): bulk and per-sample labels keep agreeing, and
        # follow the threshold that is set when they are asked for
        thr2 = 0.999 if spec["thr"] < 0.5 else 0.0
        w.threshold = thr2
        per2 = [_as_int(w.getitem_class(i)) for i in range(n)]
        bulk2 = _aslist(w.getall_class())
        exp2 = [int(probs[i].argmax()) if probs[i].max() > thr2 else -1 for i in range(n)]
        if per2 != exp2:
            raise Violation("pseudo-label:per-sample-ignores-re-assigned-threshold", f"threshold {spec['thr']} -> {thr2}: {per2} expected {exp2}")
        if bulk2 != per2:
            raise Violation("bulk!=per-sample:KDPseudoLabelWrapper:after-re-assigning-threshold", f"getall_class()={bulk2} per-sample={per2}")
    return Case(nt, labels)


def check_random_class(spec):
    from kappadata.wrappers import KDRandomClassWrapper
    n = len(spec["classes"])
    mode = spec["mode"]
    nc = spec["nc"]
    mk = {"world_size": 1 + spec["W"] % n} if mode == "gatherbug" else None
    w, lab, root = common("KDRandomClassWrapper", spec, lambda r: KDRandomClassWrapper(r, mode=mode, mode_kwargs=mk, num_classes=nc,
                                                                                    seed=spec["seed"]))
    if mode == "randperm":
        for s in range(0, n - nc + 1, nc):
            if sorted(lab[s:s + nc]) != list(range(nc)):
                raise Violation("random-class:randperm-block-not-a-permutation", str(lab[s:s + nc]))
    return Case(True, [mode])


def check_semi(spec):
    from kappadata.wrappers.sample_wrappers.semi_wrapper import SemiWrapper
    n = len(spec["classes"])
    p = spec["p"]
    w, lab, root = common("SemiWrapper", spec, lambda r: SemiWrapper(semi_percent=p, seed=spec["seed"], dataset=r))
    changed = [i for i in range(n) if lab[i] != spec["classes"][i]]
    if any(lab[i] != -1 for i in changed):
        raise Violation("semi:label-rewritten-to-something-else", "")
    n_semi = sum(1 for i in range(n) if lab[i] == -1)
    if n_semi != int(n * p):
        raise Violation("semi:wrong-number-of-unlabeled", f"n={n} p={p}: {n_semi} unlabeled, expected {int(n * p)}")
    # a second reader of the root's bulk accessor still sees the original labels (checked in common via root.classes)
    return Case(nontrivial_layout(spec) or p in (0, 1), ["p=%s" % ("0" if p == 0 else "1" if p == 1 else "mid"), spec.get("bulk")])


def _check_encoding(kind, w, enc, orig, C, smoothing):
    hard = None
    try:
        hard = _aslist(w.getall_class())
    except Exception as e:
        if -1 not in orig:
            raise Violation(f"bulk-raises:{kind}", repr(e)[:120])
    for i, (v, c) in enumerate(zip(enc, orig)):
        if c == -1:
            # a sample without a label stays without one: the -1 marker comes back (or the encoder refuses the sample) - never a class
            if v is REFUSED:
                continue
            t = torch.as_tensor(v).float().flatten()
            if not (t.numel() >= 1 and bool((t == -1.0).all())):  # the marker as a number, a 0-d or a one-element tensor (or a row of -1)
                raise Violation(f"unlabeled-sample-encoded-as-a-class:{kind}", f"sample {i} has label -1, encoded as {v.tolist() if torch.is_tensor(v) else v!r}"[:200])
            continue
        if C == 1:
            # binary scalar label
            val = float(v)
            if not (0.0 <= val <= 1.0):
                raise Violation(f"encoding-out-of-[0,1]:{kind}", f"{val}")
            if 1 - smoothing > 1e-5 and (val > 0.5) != (c > 0.5):
                raise Violation(f"encoding-argmax:{kind}", f"binary label {c} became {val}")
            continue
        if smoothing == 0 and kind == "LabelSmoothingWrapper":
            if _as_int(v) != c:
                raise Violation("label-smoothing:smoothing=0-changes-label", "")
            continue
        if not torch.is_tensor(v) or v.shape != (C,):
            raise Violation(f"encoding-shape:{kind}", f"{getattr(v, 'shape', type(v))} for {C} classes")
        if (v < 0).any():
            raise Violation(f"encoding-negative:{kind}", str(v.tolist()))
        if abs(float(v.sum()) - 1.0) > 1e-6 * max(1, C):
            raise Violation(f"encoding-sum!=1:{kind}", f"sum={float(v.sum())}")
        mx = float(v.max())
        if float(v[c]) < mx - 1e-7:
            raise Violation(f"encoding-argmax:{kind}", f"class {c} has {float(v[c])}, max {mx}")
        # strict argmax only where the on/off gap (1 - smoothing) is representable in float32; closer to 1 the encoding is a tie
        if 1 - smoothing > 1e-5 and C > 1 and int(v.argmax()) != c:
            raise Violation(f"encoding-argmax:{kind}", f"argmax {int(v.argmax())} for class {c}")
        if hard is not None and hard[i] != c:
            raise Violation(f"bulk!=decoded-per-sample:{kind}", f"sample {i}: bulk {hard[i]}, per-sample argmax {c}")


def check_label_smoothing(spec):
    from kappadata.wrappers import LabelSmoothingWrapper
    s = spec["smoothing"]
    w, enc, root = common("LabelSmoothingWrapper", spec, lambda r: LabelSmoothingWrapper(r, smoothing=s), encoding=True)
    _check_encoding("LabelSmoothingWrapper", w, enc, spec["classes"], spec["C"], s)
    return Case(nontrivial_layout(spec) or s in (0, 1) or spec["C"] == 1, ["binary" if spec["C"] == 1 else "multi"])


def check_encoding_follows_class_count(spec):
    """the encoding wrappers announce their range through the wrapped dataset: when an inner KDRandomClassWrapper is
    re-configured (num_classes setter), later encodings follow the new class count"""
    from kappadata.wrappers import KDRandomClassWrapper, LabelSmoothingWrapper, OneHotWrapper
    root = make_root(spec)
    inner = KDRandomClassWrapper(root, mode="random", num_classes=spec["nc1"], seed=spec["seed"])
    w = LabelSmoothingWrapper(inner, smoothing=spec["smoothing"]) if spec["enc"] == "smooth" else OneHotWrapper(inner)
    for nc in (spec["nc1"], spec["nc2"], spec["nc1"]):
        inner.num_classes = nc
        C = w.getshape_class()[0]
        if C != nc:
            raise Violation("encoding-wrapper-shape-query-stale", f"getshape_class {C} after num_classes={nc}")
        for i in range(len(root)):
            v = w.getitem_class(i)
            c = inner.getitem_class(i)
            if not torch.is_tensor(v) or tuple(v.shape) != (nc,):
                raise Violation(f"encoding-length-differs-from-announced-class-count:{spec['enc']}",
                                f"num_classes set to {nc}: encoding has shape {tuple(getattr(v, 'shape', ()))}")
            if abs(float(v.sum()) - 1) > 1e-5 or float(v[c]) < float(v.max()) - 1e-7:
                raise Violation(f"encoding-wrong-after-class-count-change:{spec['enc']}", f"{v.tolist()} for class {c} of {nc}")
    return Case(True, [spec["enc"]], 3)


def check_one_hot(spec):
    from kappadata.wrappers import OneHotWrapper
    if spec["C"] == 1:
        spec = dict(spec, C=2)
    w, enc, root = common("OneHotWrapper", spec, lambda r: OneHotWrapper(r), encoding=True)
    _check_encoding("OneHotWrapper", w, enc, spec["classes"], spec["C"], 0.0)
    for v, c in zip(enc, spec["classes"]):
        if c == -1:
            continue  # judged by _check_encoding: refused, or the -1 marker
        if sorted(v.tolist()) != [0.0] * (spec["C"] - 1) + [1.0]:
            raise Violation("one-hot:not-one-hot", str(v.tolist()))
    # a consumer works on the returned vectors in place (sample-level mixing does): every request hands out a vector of its own, so a
    # later request for the same or another sample of that class is still one-hot
    for v, c in zip(enc, spec["classes"]):
        if c != -1 and torch.is_tensor(v):
            v.mul_(0.25)
    for i, c in enumerate(spec["classes"]):
        if c == -1:
            continue
        v2 = w.getitem_class(i)
        if sorted(v2.tolist()) != [0.0] * (spec["C"] - 1) + [1.0] or int(v2.argmax()) != c:
            raise Violation("one-hot:encoding-shared-between-requests", f"sample {i} (class {c}) after earlier results were modified in place: {v2.tolist()}")
    return Case(nontrivial_layout(spec), [])


def check_stacked(spec):
    """chains of 2-3 label-rewriting wrappers: coherence, range and purity must survive stacking"""
    import kappadata.wrappers as W
    from kappadata.wrappers.dataset_wrappers.swap_label_wrapper import SwapLabelWrapper
    from kappadata.wrappers.sample_wrappers.semi_wrapper import SemiWrapper
    n = len(spec["classes"])
    if spec["C"] < 2:
        raise Refused("binary (1-dim) class shape is not used for stacks: ClassGroupsWrapper does not support it")

    def build(root):
        ds = root
        for k, layer in enumerate(spec["chain"]):
            kind, a = layer["k"], layer["a"]
            C = ds.getshape_class()[0]
            if kind == "groups":
                divs = [d for d in range(1, C + 1) if C % d == 0]
                ds = W.ClassGroupsWrapper(ds, classes_per_group=divs[a % len(divs)], shuffle=bool(a % 2), seed=a)
            elif kind == "super":
                ds = W.RandomSuperclassWrapper(ds, classes_per_superclass=1 + a % max(1, C), superclass_splits=1 + a % 2, seed=a)
            elif kind == "swap":
                ds = SwapLabelWrapper(ds, p=[0.0, 0.3, 1.0][a % 3], seed=a)
            elif kind == "semi":
                ds = SemiWrapper(semi_percent=[0.0, 0.4, 1.0][a % 3], seed=a, dataset=ds)
            elif kind == "allgather":
                ds = W.AllgatherClassWrapper(ds, world_size=1 + a % n)
            elif kind == "overwrite":
                ds = W.OverwriteClassesWrapper(ds, classes=[(j * 3 + a) % C for j in range(n)])
        return ds
    w, lab, root = common("stack:" + "+".join(l["k"] for l in spec["chain"]), spec, build)
    return Case(True, [l["k"] for l in spec["chain"]])


# ------------------------------------------------------------------ strategies
def L(extra, unlabeled=False, internal=False, **kw):
    base = with_layout(extra, min_n=1, allow_unlabeled=unlabeled, **kw)
    kinds = ["list", "internal", "numpy", "tensor", "internal_numpy", "internal_tensor"]
    return base.flatmap(lambda s: st.tuples(st.sampled_from(kinds), st.sampled_from([None, None, "deepcopy", "pickle"]),
                                            st.sampled_from(["keyword", "positional"])).map(
        lambda t: dict(s, bulk=t[0], clone=t[1], call=t[2])))


SEED = st.one_of(st.just(0), st.integers(0, 2 ** 31 - 1))  # 0 is a legal seed and a classic falsy-value trap
S_GROUPS = L(st.fixed_dictionaries({"gsel": st.integers(0, 7), "shuffle": st.booleans(), "seed": SEED}))
S_SUPER = L(st.fixed_dictionaries({"cps": st.integers(0, 7), "splits": st.integers(1, 3), "shuffle": st.booleans(), "seed": SEED}))
S_SWAP = L(st.fixed_dictionaries({"p": st.one_of(st.sampled_from([0.0, 1.0, 0.5]), st.floats(0, 1)), "seed": SEED}))
S_OVERWRITE = L(st.fixed_dictionaries({"k": st.integers(0, 9999), "as_tensor": st.booleans()}))
S_ALLGATHER = L(st.fixed_dictionaries({"W": st.integers(0, 47)}))
S_PSEUDO = L(st.fixed_dictionaries({"k": st.integers(0, 9999), "form": st.sampled_from(["hard", "soft", "threshold", "threshold", "topk"]),
                                    "scale": st.sampled_from([0.0, 0.3, 1.0, 3.0]), "thr": st.sampled_from([0.0, 0.125, 0.25, 0.3, 0.5, 0.7, 0.9, 0.999]),
                                    "topk": st.integers(0, 7), "tau": st.sampled_from([None, 0.5, 1.0, float("inf")]), "seed": SEED,
                                    "tab": st.sampled_from(["normal", "normal", "votes", "near_tie"])}))
S_RANDCLS = L(st.fixed_dictionaries({"mode": st.sampled_from(["random", "randperm", "gatherbug"]), "nc": st.integers(1, 9),
                                     "W": st.integers(0, 47), "seed": SEED}))
S_SEMI = L(st.fixed_dictionaries({"p": st.one_of(st.sampled_from([0.0, 1.0, 0.5, 0.1]), st.floats(0, 1)), "seed": SEED}), internal=True)
S_SMOOTH = L(st.fixed_dictionaries({"smoothing": st.one_of(st.sampled_from([0.0, 1.0, 0.1, 0.5]), st.floats(0, 1))}), unlabeled=True)
S_ONEHOT = L(st.just({}), unlabeled=True)


def _seed_forms(fn):
    """a third of the seeded cases hand the seed over as a numpy integer (an element of an array of seeds)"""
    def run(spec):
        if spec.get("seed_form") == "numpy" and "seed" in spec:
            spec = dict(spec, seed=np.int64(spec["seed"]))
        return fn(spec)
    return run


def F(name, fn, strat, q=500, t=6000, np_seed=True, omit_seed=False, sh=1):
    # (KDRandomClassWrapper seeds a torch generator, which rejects numpy integers with a TypeError - a clean refusal, not generated)
    if getattr(fn, "__name__", "") != "run":
        # an exception raised inside the library for a generated, accepted configuration is a violation, not a harness error
        fn = guarded(name, fn)
    if np_seed:
        forms = ["int", "int", "numpy"] + (["omitted"] if omit_seed else [])  # omitted: only where the documented default is a fixed seed
        strat = strat.flatmap(lambda s: st.sampled_from(forms).map(lambda f: dict(s, seed_form=f)) if "seed" in s else st.just(s))
        fn = _seed_forms(fn)
    return Facet(name, fn, strategy=lambda tier, s=strat: s, budget={"quick": 2 * q if sh == 1 else q, "thorough": t},
                 shards={"quick": sh, "thorough": 4}, min_nontrivial={"quick": q // 12, "thorough": t // 12}, case_timeout=60)


S_RECONF = L(st.fixed_dictionaries({"nc1": st.integers(2, 6), "nc2": st.integers(2, 9), "seed": SEED, "enc": st.sampled_from(["smooth", "onehot"]),
                                    "smoothing": st.sampled_from([0.1, 0.5])}))
S_STACKED = L(st.fixed_dictionaries({"chain": st.lists(st.fixed_dictionaries({
    "k": st.sampled_from(["groups", "super", "swap", "semi", "allgather", "overwrite"]), "a": st.integers(0, 50)}), min_size=2, max_size=3)}))

FACETS = [
    F("stacked-wrappers", check_stacked, S_STACKED, q=2400, t=12000, sh=4),
    F("encoding-follows-class-count", guarded("encoding-follows-class-count", check_encoding_follows_class_count), S_RECONF, q=200, t=2000, np_seed=False),
    F("class-groups", check_class_groups, S_GROUPS, omit_seed=True),
    F("random-superclass", check_random_superclass, S_SUPER),
    F("swap-label", check_swap_label, S_SWAP, omit_seed=True),
    F("overwrite-classes", check_overwrite, S_OVERWRITE),
    F("allgather", check_allgather, S_ALLGATHER),
    F("pseudo-label", check_pseudo_label, S_PSEUDO, q=800, t=9000),
    F("random-class", check_random_class, S_RANDCLS, np_seed=False),
    F("semi", check_semi, S_SEMI),
    F("label-smoothing", check_label_smoothing, S_SMOOTH),
    F("one-hot", check_one_hot, S_ONEHOT),
]
