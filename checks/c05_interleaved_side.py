"""C05 - interleaved scheduler: side passes run exactly when due, whole, and unmixed."""
import itertools

from hypothesis import strategies as st

from vlib import interleaved_model as im
from vlib.core import Case, Facet, Refused, Violation

# thorough-tier budgets of every facet are multiplied by this factor (sized for ~5-8 min on 16 cores)
THOROUGH_SCALE = 5
LEVEL = "exploration"
RULE = ("specs = C04 geometry + 0-4 interleaved configs (non-empty subset of every_n_epochs/updates/samples, dataset "
        "size 0-7, own batch size, permuted/partial sampler), incl. zero budgets; facet 'stream' compares list(sampler) and "
        "batch_sampler item-by-item with the statement-derived reference model, facet 'small-exhaustive' enumerates N<=5 x "
        "all interval triples <=3 completely, facet 'loader' drives get_data_loader() with tagging collators; non-trivial = "
        ">=1 config and (>=2 interval kinds on one config, or n_s%B!=0, or >=3 configs, or per-config batch size, or zero "
        "budget); distinct = distinct spec hash")
ASSUMPTIONS = ["config samplers are re-iterable and yield len(sampler) indices",
               "dataloader facet: worker processes are real OS processes whose scheduling is not controlled (only sampled)"]


def nontrivial(spec):
    cs = spec["configs"]
    if not cs:
        return False
    B = spec["B"]
    return (any(sum(k in c and c[k] is not None for k in ("n_e", "n_u", "n_s")) >= 2 for c in cs)
            or any(c.get("n_s") and c["n_s"] % B != 0 for c in cs) or len(cs) >= 3
            or any(c.get("batch_size") for c in cs) or spec["budget"] == 0)


def _pass_events(stream):
    """[(number of main updates completed so far, src)] for every maximal run of side items of one source"""
    ev, updates, prev = [], 0, None
    for f, s, i in stream:
        if s == 0:
            if f:
                updates += 1
            prev = None
        else:
            if prev != s:
                ev.append((updates, s))
            prev = s
    return ev


def kinds_of(c):
    return "+".join(k for k in ("n_e", "n_u", "n_s") if c.get(k) is not None)


def compare_stream(spec, sampler, ref):
    n_updates = sum(1 for f, s, _ in ref["stream"] if s == 0 and f)
    bound = len(ref["stream"]) + (n_updates + 2) * sum(c["size"] for c in spec["configs"]) + 64
    raw = list(itertools.islice(iter(sampler), bound + 1))
    if len(raw) > bound:
        raise Violation("does-not-end", f"more than {bound} items")
    got = []
    tags = im.tags_of(spec)
    sizes = [im.main_size(spec)] + [c["size"] for c in spec["configs"]]
    total = sum(sizes)
    for f, g in raw:
        if not 0 <= g < total:
            raise Violation("index-out-of-range", f"global index {g} outside [0,{total})")
        src, tag, local = im.resolve(sampler, g)
        if tag != tags[src]:
            raise Violation("resolves-to-wrong-dataset", f"global {g}: concat part {src} holds dataset {tag}, expected {tags[src]}")
        got.append((bool(f), src, local))
    exp = ref["stream"]
    if got == exp:
        return raw
    # classify
    ge, ee = _pass_events(got), _pass_events(exp)
    if ge != ee:
        missing = [e for e in ee if e not in ge]
        spurious = [e for e in ge if e not in ee]
        if missing:
            u, s = missing[0]
            raise Violation("side-pass-missing:" + kinds_of(spec["configs"][s - 1]),
                            f"config {s} due after update {u} did not run; got passes {ge[:8]} expected {ee[:8]}")
        if spurious:
            u, s = spurious[0]
            raise Violation("side-pass-spurious:" + kinds_of(spec["configs"][s - 1]),
                            f"config {s} ran after update {u} without being due; expected {ee[:8]}")
        raise Violation("side-pass-order", f"got {ge[:8]} expected {ee[:8]}")
    gm, em = [(f, i) for f, s, i in got if s == 0], [(f, i) for f, s, i in exp if s == 0]
    if gm != em:
        raise Violation("main-part-differs", "see C04")
    k = next((k for k in range(min(len(got), len(exp))) if got[k] != exp[k]), min(len(got), len(exp)))
    g, e = got[k] if k < len(got) else None, exp[k] if k < len(exp) else None
    if g and e and g[1:] == e[1:]:
        raise Violation("side-batch-cutting", f"position {k}: got {g} expected {e}")
    raise Violation("side-pass-content", f"position {k}: got {g} expected {e}")


def check_stream(spec):
    ref = im.reference_run(spec)
    try:
        sampler, _ = im.build_impl(spec)
    except AssertionError:
        raise Refused("constructor assertion")
    compare_stream(spec, sampler, ref)
    # batch view
    sampler2, _ = im.build_impl(spec)
    exp_batches, cur = [], []
    for f, s, i in ref["stream"]:
        cur.append((s, i))
        if f:
            exp_batches.append(cur)
            cur = []
    got_batches = []
    for b in itertools.islice(iter(sampler2.batch_sampler), len(exp_batches) + 8):
        rb = [im.resolve(sampler2, g) for g in b]
        if len({r[0] for r in rb}) > 1:
            raise Violation("batch-mixes-datasets", str(rb))
        got_batches.append([(r[0], r[2]) for r in rb])
    if spec["main_kind"] != "kd_random" and got_batches != exp_batches:
        k = next((k for k in range(min(len(got_batches), len(exp_batches))) if got_batches[k] != exp_batches[k]), -1)
        raise Violation("batch-sampler-differs", f"batch {k}: got {got_batches[k] if k >= 0 else len(got_batches)} "
                                                 f"expected {exp_batches[k] if k >= 0 else len(exp_batches)}")
    labels = ["cfgs=%d" % len(spec["configs"])]
    for c in spec["configs"]:
        labels.append("kinds:" + kinds_of(c))
    if spec["budget"] == 0:
        labels.append("zero-budget")
    return Case(nontrivial(spec), set(labels))


class TagCollator:
    def __init__(self, k):
        self.k = k

    def __call__(self, samples):
        return ("collator_%d" % self.k, [tuple(s) for s in samples])


def check_loader(spec):
    spec = dict(spec)
    workers = spec.pop("workers", 0)
    ref = im.reference_run(spec)
    spec["_main_collator"] = TagCollator(0)
    spec["configs"] = [dict(c, _collator=TagCollator(k + 1)) for k, c in enumerate(spec["configs"])]
    try:
        sampler, _ = im.build_impl(spec)
    except AssertionError:
        raise Refused("constructor assertion")
    exp_batches, cur = [], []
    for f, s, i in ref["stream"]:
        cur.append((s, i))
        if f:
            exp_batches.append(cur)
            cur = []
    loader = sampler.get_data_loader(num_workers=workers)
    got = []
    for b in itertools.islice(iter(loader), len(exp_batches) + 4):
        got.append(b)
    tags = im.tags_of(spec)
    for k, b in enumerate(got):
        name, samples = b
        srcs = {s[0] for s in samples}
        if len(srcs) != 1:
            raise Violation("loader-batch-mixes-datasets", str(b))
        # which config a batch belongs to is read off the reference (two configs may draw from one dataset object, each with its own collator)
        if k < len(exp_batches) and name != "collator_%d" % exp_batches[k][0][0]:
            raise Violation("loader-wrong-collator", f"batch {k} belongs to concat part {exp_batches[k][0][0]} but was collated by {name}")
    exp_batches = [[(tags[s_], i_) for s_, i_ in b] for b in exp_batches]
    got_b = [[tuple(s) for s in b[1]] for b in got]
    if spec["main_kind"] != "kd_random" and got_b != exp_batches:
        k = next((k for k in range(min(len(got_b), len(exp_batches))) if got_b[k] != exp_batches[k]), -1)
        raise Violation("loader-batches-differ", f"batch {k}: got {got_b[k] if k >= 0 else len(got_b)} expected "
                                                 f"{exp_batches[k] if k >= 0 else len(exp_batches)}")
    return Case(nontrivial(spec), ["workers=%d" % workers])


def enumerate_small(tier):
    maxn = 4 if tier == "quick" else 5
    vals = [None, 1, 2, 3]
    for N in range(1, maxn + 1):
        for B in range(1, N + 1):
            for drop_last in (False, True):
                for n_e in vals:
                    for n_u in vals:
                        for n_s in [None, 1, 2, 3, 5]:
                            if n_e is None and n_u is None and n_s is None:
                                continue
                            for kind, budget in (("epochs", 3), ("updates", 7), ("samples", 2 * N + 1)):
                                c = dict(size=2, batch_size=None, key=None)
                                if n_e:
                                    c["n_e"] = n_e
                                if n_u:
                                    c["n_u"] = n_u
                                if n_s:
                                    c["n_s"] = n_s
                                yield dict(N=N, B=B, drop_last=drop_last, dlbs=None, budget_kind=kind, budget=budget,
                                           main_kind="epoch", main_key=N, configs=[c])


@st.composite
def loader_spec(draw, tier):
    s = draw(im.full_spec(max_configs=3, min_configs=1))
    s["main_kind"] = draw(st.sampled_from(["seq", "epoch", "kd_dist", "kd_dist2"]))
    s["workers"] = draw(st.sampled_from([0, 0, 0, 2])) if tier == "thorough" else 0
    return s


FACETS = [
    Facet("stream", check_stream, strategy=lambda tier: im.full_spec(max_configs=4),
          budget={"quick": 5000, "thorough": 80000}, shards={"quick": 8, "thorough": 16},
          min_nontrivial={"quick": 800, "thorough": 8000}),
    Facet("small-exhaustive", check_stream, enumerate=enumerate_small, exhaustive=True,
          shards={"quick": 6, "thorough": 16}, min_nontrivial={"quick": 500, "thorough": 2000}),
    Facet("loader", check_loader, strategy=lambda tier: loader_spec(tier), case_timeout=120,
          budget={"quick": 480, "thorough": 1200}, shards={"quick": 3, "thorough": 12},
          min_nontrivial={"quick": 40, "thorough": 300}),
]
