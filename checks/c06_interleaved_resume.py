"""C06 - resuming the interleaved scheduler yields the suffix of the uninterrupted run."""
import itertools

from hypothesis import strategies as st

from vlib import interleaved_model as im
from vlib.core import Case, Facet, Refused, Violation, guarded

# thorough-tier budgets of every facet are multiplied by this factor (sized for ~5-8 min on 16 cores)
THOROUGH_SCALE = 5
LEVEL = "exploration"
RULE = ("spec = C04/C05 configuration (epoch-keyed main samplers) + epoch boundary k>=1 strictly before the budget + "
        "checkpoint form (start_epoch / start_update / start_sample, values read off the reference run at the end of epoch "
        "k-1); oracle = list(resumed) must equal the suffix of the uninterrupted reference stream (flags, side passes, "
        "set_epoch announcements, stop); NotImplementedError / constructor assertion = refusal; the uninterrupted "
        "implementation run is validated against the reference model in the same case; non-trivial = checkpoint accepted and "
        "(no drop_last with N%B!=0, or drop_last_batch_size, or update/sample-interval config, or updates/samples budget, or "
        "epoch-keyed sampler); distinct = distinct spec hash")
ASSUMPTIONS = ["main sampler order is a function of the announced epoch (sequential, harness EpochSampler, "
               "kappadata DistributedSampler) - a sampler with hidden state could not be resumed by any scheduler"]


def nontrivial(spec):
    return ((not spec["drop_last"] and spec["N"] % spec["B"] != 0) or spec.get("dlbs") is not None
            or any(c.get("n_u") or c.get("n_s") for c in spec["configs"])
            or spec["budget_kind"] in ("updates", "samples") or spec["main_kind"] == "epoch")


def check(spec):
    spec = dict(spec)
    form, kfrac = spec.pop("form"), spec.pop("kfrac")
    ref = im.reference_run(spec)
    ends = ref["epoch_ends"]
    # epoch boundaries strictly before the budget: the stream continues after them
    cands = [e for e in ends if e[0] < len(ref["stream"])]
    if not cands:
        raise Refused("no epoch boundary strictly before the budget")
    pos, k, U, S = cands[min(len(cands) - 1, int(kfrac * len(cands)))]
    start = {"start_epoch": {"start_epoch": k}, "start_update": {"start_update": U}, "start_sample": {"start_sample": S}}[form]
    try:
        resumed, main = im.build_impl(spec, start=start)
    except NotImplementedError:
        raise Refused("NotImplementedError:" + form)
    except AssertionError:
        raise Refused("constructor assertion:" + form)
    exp = ref["stream"][pos:]
    bound = len(exp) + 8 * (sum(c["size"] for c in spec["configs"]) + spec["B"]) + 64
    raw = list(itertools.islice(iter(resumed), bound + 1))
    if len(raw) > bound:
        raise Violation("resume-does-not-end", f"more than {bound} items; suffix has {len(exp)}")
    got = []
    for f, g in raw:
        src, tag, local = im.resolve(resumed, g)
        got.append((bool(f), src, local))
    if got != exp:
        gm, em = [(f, i) for f, s, i in got if s == 0], [(f, i) for f, s, i in exp if s == 0]
        cls = "dl" if spec["drop_last"] else "nodl"
        if spec.get("dlbs"):
            cls += "+dlbs"
        if gm != em:
            if len(gm) != len(em):
                raise Violation(f"resume-stop-point:{form}:{cls}", f"resumed main part has {len(gm)} items, suffix {len(em)} "
                                                                    f"(checkpoint epoch={k} update={U} sample={S})")
            raise Violation(f"resume-main-differs:{form}:{cls}", f"got {gm[:12]} expected {em[:12]}")
        ks = "+".join(sorted({kk for c in spec["configs"] for kk in ("n_e", "n_u", "n_s") if c.get(kk)}))
        raise Violation(f"resume-side-passes-differ:{form}:{ks}", f"checkpoint epoch={k} update={U} sample={S}: got "
                                                                   f"{[(s, i) for f, s, i in got][:16]} expected {[(s, i) for f, s, i in exp][:16]}")
    if spec["main_kind"] == "epoch":
        ann = [e for kk, e in main.log if kk == "set_epoch"]
        exp_ann = [e for e in ref["set_epochs"] if e >= k]
        if ann != exp_ann:
            raise Violation(f"resume-set-epoch-log:{form}", f"announced {ann} expected {exp_ann}")
    # the uninterrupted implementation run is itself validated (relation is never impl-vs-impl only)
    full, _ = im.build_impl(spec)
    rawf = list(itertools.islice(iter(full), len(ref["stream"]) + 1))
    gotf = [(bool(f),) + im.resolve(full, g)[0::2] for f, g in rawf]
    if gotf != ref["stream"]:
        raise Violation("uninterrupted-run-differs-from-model", "see C04/C05")
    return Case(nontrivial(spec), [form, "accepted"])


def check_far(spec):
    """checkpoints far into a run (beyond 2**31 / 2**53 updates) cannot be reached by an uninterrupted run; the three equivalent
    checkpoint forms must still describe the same point: equal streams, and the first epoch announced is the checkpoint's epoch"""
    spec = dict(spec)
    k = spec.pop("far")
    N, B = spec["N"], spec["B"]
    u = spec.get("dlbs") or B
    spe = (N // u) * u if spec["drop_last"] else N
    upe = -(-spe // B)
    if spe == 0:
        raise Refused("empty epochs")
    spec.update(budget_kind="epochs", budget=k + 2, main_kind="epoch")
    forms = {"start_epoch": {"start_epoch": k}, "start_update": {"start_update": k * upe}, "start_sample": {"start_sample": k * spe}}
    runs = {}
    bound = 2 * (spe + 2 * upe * sum(c["size"] for c in spec["configs"]) + sum(c["size"] for c in spec["configs"])) + 64
    for name, start in forms.items():
        try:
            sampler, main = im.build_impl(spec, start=start)
        except NotImplementedError:
            continue
        except AssertionError:
            continue
        raw = list(itertools.islice(iter(sampler), bound + 1))
        if len(raw) > bound:
            raise Violation(f"far-checkpoint-does-not-end:{name}", f"checkpoint epoch {k}: more than {bound} items for two epochs")
        runs[name] = ([(bool(f),) + im.resolve(sampler, g)[0::2] for f, g in raw], [e for kk, e in main.log if kk == "set_epoch"])
    if "start_epoch" not in runs:
        raise Refused("start_epoch refused")
    stream, ann = runs["start_epoch"]
    if ann != [k, k + 1]:
        raise Violation("far-checkpoint-announces-wrong-epochs:start_epoch", f"checkpoint epoch {k}: announced {ann}")
    if sum(1 for f, s_, i in stream if s_ == 0) != 2 * spe:
        raise Violation("far-checkpoint-main-length", f"{sum(1 for f, s_, i in stream if s_ == 0)} main items for two epochs of {spe}")
    for name, (st2, ann2) in runs.items():
        if ann2 != ann:
            raise Violation(f"far-checkpoint-forms-disagree:{name}:epochs", f"checkpoint epoch {k} given as {name}: announced {ann2}, as start_epoch {ann}")
        if st2 != stream:
            raise Violation(f"far-checkpoint-forms-disagree:{name}", f"checkpoint epoch {k}: the stream differs from the one of start_epoch "
                                                                     f"(first difference at {next((j for j in range(min(len(st2), len(stream))) if st2[j] != stream[j]), 'length')})")
    return Case(len(runs) >= 2, sorted(runs), len(runs))


def check_accepted(spec):
    """whatever geometry the constructor accepts - also one the reference model has no opinion on, such as a drop_last_batch_size above the
    sampler length - a run resumed with start_epoch=k must equal the implementation's own uninterrupted run from the item on at which
    epoch k was announced (model-free: both sides are the code under test, the relation is the property)"""
    spec = dict(spec)
    try:
        full, main = im.build_impl(spec)
    except (AssertionError, NotImplementedError):
        raise Refused("constructor refuses the geometry")
    BOUND = 3000
    stream, starts, it = [], {}, iter(full)
    while True:
        seen = sum(1 for kk, _ in main.log if kk == "set_epoch")
        try:
            f, g = next(it)
        except StopIteration:
            break
        anns = [e for kk, e in main.log if kk == "set_epoch"]
        if len(anns) > seen:
            starts.setdefault(anns[-1], len(stream))
        stream.append((bool(f),) + im.resolve(full, g)[0::2])
        if len(stream) > BOUND:
            raise Violation("accepted-geometry:uninterrupted-run-does-not-end", f"more than {BOUND} items for {spec['budget']} epochs over {spec['N']} samples")
    anns = [e for kk, e in main.log if kk == "set_epoch"]
    ks = [k for k in sorted(starts) if k >= 1]
    if not ks:
        raise Refused("no epoch boundary before the budget")
    k = ks[min(len(ks) - 1, int(spec["kfrac"] * len(ks)))]
    try:
        resumed, main2 = im.build_impl(spec, start={"start_epoch": k})
    except (AssertionError, NotImplementedError):
        raise Refused("checkpoint refused")
    got = [(bool(f),) + im.resolve(resumed, g)[0::2] for f, g in itertools.islice(iter(resumed), BOUND + 1)]
    exp = stream[starts[k]:]
    oversized = bool(spec.get("dlbs") and spec["dlbs"] > spec["N"])
    tag = "oversized-dlbs" if oversized else "ordinary"
    if got != exp:
        raise Violation(f"accepted-geometry:resume-differs-from-own-uninterrupted-run:{tag}",
                        f"start_epoch={k}: resumed run has {len(got)} items, the uninterrupted run {len(exp)} from that epoch on; first difference at "
                        f"{next((j for j in range(min(len(got), len(exp))) if got[j] != exp[j]), 'length')}")
    ann2 = [e for kk, e in main2.log if kk == "set_epoch"]
    if ann2 != [e for e in anns if e >= k]:
        raise Violation(f"accepted-geometry:announced-epochs-differ:{tag}", f"resumed {ann2}, uninterrupted {[e for e in anns if e >= k]}")
    return Case(True, [tag], 2)


@st.composite
def accepted_spec(draw):
    s = draw(im.full_spec(max_configs=2, allow_zero_budget=False, small=True))
    for c in s["configs"]:
        if c.get("form") == "growing":
            del c["form"]
    s.update(main_kind="epoch", budget_kind="epochs", budget=draw(st.integers(2, 4)), kfrac=draw(st.sampled_from([0.0, 0.5, 0.99])))
    if s["drop_last"] and draw(st.booleans()):
        # also sizes the constructor may or may not accept: multiples of B beyond the sampler length
        s["dlbs"] = s["B"] * draw(st.integers(1, max(1, (3 * s["N"]) // s["B"])))
    return s


@st.composite
def far_spec(draw):
    s = draw(im.full_spec(max_configs=2, allow_zero_budget=False, small=True))
    for c in s["configs"]:
        if c.get("form") == "growing":
            del c["form"]
    s["drop_last"] = draw(st.sampled_from([True, True, False]))
    if not s["drop_last"]:
        s["dlbs"] = None
    s["far"] = draw(st.sampled_from([2 ** 31 + 1, 2 ** 32 + 3, 2 ** 53 + 1, 2 ** 53 + 3, 2 ** 60 + 7, 12345]))
    return s


@st.composite
def resume_spec(draw, small=False):
    s = draw(im.full_spec(max_configs=3, allow_zero_budget=False, small=small))
    s["main_kind"] = draw(st.sampled_from(["seq", "epoch", "epoch", "kd_dist", "kd_dist2"]))
    # budgets long enough to have boundaries before the end
    if s["budget_kind"] == "epochs":
        s["budget"] = draw(st.integers(2, 5))
    for c in s["configs"]:
        # a side sampler whose length depends on how many passes it has served carries hidden state no checkpoint restores
        if c.get("form") == "growing":
            del c["form"]
    s["form"] = draw(st.sampled_from(["start_epoch", "start_epoch", "start_update", "start_sample"]))
    s["kfrac"] = draw(st.sampled_from([0.0, 0.34, 0.5, 0.67, 0.99]))
    return s


def enumerate_small(tier):
    maxn = 5 if tier == "quick" else 7
    for N in range(1, maxn + 1):
        for B in range(1, N + 1):
            for drop_last in (False, True):
                dl = [None] + ([m * B for m in range(2, N // B + 1)] if drop_last else [])
                for dlbs in dl:
                    for kind, budget in (("epochs", 3), ("updates", 2 * N + 1), ("samples", 3 * N - 1)):
                        for form in ("start_epoch", "start_update", "start_sample"):
                            for kfrac in (0.0, 0.99):
                                for cfg in ([], [dict(n_s=3, size=2, batch_size=None, key=None)],
                                            [dict(n_u=2, n_e=2, size=1, batch_size=None, key=None)]):
                                    yield dict(N=N, B=B, drop_last=drop_last, dlbs=dlbs, budget_kind=kind, budget=budget,
                                               main_kind="epoch", main_key=N + B, configs=cfg, form=form, kfrac=kfrac)


FACETS = [
    Facet("resume", check, strategy=lambda tier: resume_spec(),
          budget={"quick": 5000, "thorough": 80000}, shards={"quick": 8, "thorough": 16},
          min_nontrivial={"quick": 200, "thorough": 3000}),
    Facet("accepted-geometries", guarded("accepted-geometries", check_accepted), strategy=lambda tier: accepted_spec(),
          budget={"quick": 1500, "thorough": 20000}, shards={"quick": 4, "thorough": 8},
          min_nontrivial={"quick": 200, "thorough": 2000}),
    Facet("far-checkpoints", check_far, strategy=lambda tier: far_spec(),
          budget={"quick": 600, "thorough": 8000}, shards={"quick": 2, "thorough": 8},
          min_nontrivial={"quick": 100, "thorough": 1000}),
    Facet("small-exhaustive", check, enumerate=enumerate_small, exhaustive=True,
          shards={"quick": 6, "thorough": 16}, min_nontrivial={"quick": 200, "thorough": 1000}),
]
