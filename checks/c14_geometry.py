"""C14 - geometric transforms stay in bounds and their recorded parameters tell the truth."""
import numpy as np
import torch
import torchvision.transforms.functional as F
from hypothesis import strategies as st
from PIL import Image
from torchvision.transforms import InterpolationMode

from vlib.core import Case, Facet, Refused, Violation

# thorough-tier budgets of every facet are multiplied by this factor (sized for ~5-8 min on 16 cores)
THOROUGH_SCALE = 10
LEVEL = "exploration"
RULE = ("per transform family a spec = image size H,W in [1,48] (smaller than / equal to / +-1 around / much larger than the "
        "target, extreme aspect ratios), tensor or PIL, constructor parameters from the accepted ranges, seed; oracles: output "
        "size, recorded coordinates inside the (padded) input, re-applying the recorded parameters by hand with torchvision "
        "functional ops reproduces the output exactly, erasing / spec-augment change only one box / one band per axis, paired "
        "image+mask transforms keep coordinate-encoded image and index-encoded mask in register, patchify/unpatchify (also around "
        "PatchwiseShuffle via the recorded permutation) and norm/denorm are mutual inverses; non-trivial = size within +-1 of the "
        "target, aspect ratio > 4, 1-pixel image, non-square patches or padding; distinct = distinct spec hash")
ASSUMPTIONS = ["a crop larger than the padded image raises ValueError (documented refusal)",
               "semseg: nearest interpolation for the image so that coordinates survive resizing exactly"]


def img(spec, pil=False, c=None):
    h, w = spec["h"], spec["w"]
    rng = np.random.default_rng([spec.get("key", 0), h, w])
    if pil:
        return Image.fromarray(rng.integers(0, 256, size=(h, w, 3), dtype=np.uint8), "RGB")
    return torch.from_numpy(rng.random(size=(c or 3, h, w), dtype=np.float32))


def eq(a, b):
    if isinstance(a, Image.Image):
        return isinstance(b, Image.Image) and a.size == b.size and a.tobytes() == b.tobytes()
    return torch.is_tensor(b) and a.shape == b.shape and torch.equal(a, b)


def size_hw(x):
    if isinstance(x, Image.Image):
        return x.height, x.width
    return tuple(x.shape[-2:])


def rng_of(spec):
    return np.random.default_rng(spec["seed"])


def _near(spec, th, tw):
    h, w = spec["h"], spec["w"]
    return abs(h - th) <= 1 or abs(w - tw) <= 1 or max(h, w) > 4 * min(h, w) or min(h, w) == 1


def _padded(x, size, padding, pad_if_needed, fill, mode):
    if padding is not None:
        x = F.pad(x, padding, fill, mode)
    h, w = size_hw(x)
    if pad_if_needed and w < size[1]:
        x = F.pad(x, [size[1] - w, 0], fill, mode)
    if pad_if_needed and h < size[0]:
        x = F.pad(x, [0, size[0] - h], fill, mode)
    return x


def check_random_crop(spec):
    from kappadata.transforms import KDRandomCrop
    th, tw = spec["th"], spec["tw"]
    padding = spec["padding"]
    x = img(spec, spec["pil"])
    t = KDRandomCrop(size=(th, tw), padding=padding, pad_if_needed=spec["pin"], fill=0, padding_mode=spec["mode"]).set_rng(rng_of(spec))
    try:
        xp = _padded(x, (th, tw), padding, spec["pin"], 0, spec["mode"])
    except Exception:
        raise Refused("torchvision pad rejects the padding for this image")
    H, W = size_hw(xp)
    ctx = {}
    try:
        y = t(x, ctx)
    except ValueError:
        if th > H or tw > W:
            raise Refused("crop larger than padded image")
        raise Violation("random-crop:raises-for-fitting-crop", f"target {(th, tw)} padded image {(H, W)}")
    if th > H or tw > W:
        raise Violation("random-crop:accepts-crop-larger-than-image", f"target {(th, tw)} padded image {(H, W)} returned {size_hw(y)}")
    if size_hw(y) != (th, tw):
        raise Violation("random-crop:output-size", f"{size_hw(y)} vs {(th, tw)}")
    p = ctx.get("random_crop")
    if p is None:
        raise Violation("random-crop:no-ctx", "")
    i, j, h, w = p["i"], p["j"], p["h"], p["w"]
    if not (0 <= i and i + h <= H and 0 <= j and j + w <= W and (h, w) == (th, tw)):
        raise Violation("random-crop:recorded-box-out-of-bounds", f"{p} in padded image {(H, W)}")
    if not eq(F.crop(xp, i, j, h, w), y):
        raise Violation("random-crop:ctx-does-not-reproduce-output", f"{p}")
    return Case(_near(spec, th, tw) or padding is not None, ["pil" if spec["pil"] else "tensor"])


def check_two_random_crop(spec):
    from kappadata.transforms.kd_two_random_crop import KDTwoRandomCrop
    th, tw = spec["th"], spec["tw"]
    x = img(spec, spec["pil"])
    H, W = size_hw(x)
    if th > H or tw > W:
        raise Refused("crop larger than image")
    t = KDTwoRandomCrop(size=(th, tw), overlap_min=spec["omin"], overlap_max=spec["omax"], tries=spec["tries"]).set_rng(rng_of(spec))
    ctx = {}
    y = t(x, ctx)
    if not (isinstance(y, list) and len(y) == 2 and all(size_hw(v) == (th, tw) for v in y)):
        raise Violation("two-random-crop:output", str([size_hw(v) for v in y]))
    p = ctx["two_random_crop"]
    boxes = [(p["i0"], p["j0"], p["h0"], p["w0"]), (p["i1"], p["j1"], p["h1"], p["w1"])]
    for k, (i, j, h, w) in enumerate(boxes):
        if not (0 <= i and i + h <= H and 0 <= j and j + w <= W):
            raise Violation("two-random-crop:recorded-box-out-of-bounds", f"{p}")
        if not eq(F.crop(x, i, j, h, w), y[k]):
            raise Violation("two-random-crop:ctx-does-not-reproduce-output", f"crop {k}: {p}")
    (i0, j0, h0, w0), (i1, j1, h1, w1) = boxes
    ih = max(0, min(i0 + h0, i1 + h1) - max(i0, i1))
    iw = max(0, min(j0 + w0, j1 + w1) - max(j0, j1))
    inter = ih * iw
    iou = inter / (h0 * w0 + h1 * w1 - inter)
    if abs(iou - p["overlap"]) > 1e-9:
        raise Violation("two-random-crop:recorded-overlap-wrong", f"recorded {p['overlap']} actual {iou}")
    lo, hi = spec["omin"] or 0.0, spec["omax"] or 1.0
    if not p["out_of_tries"] and not (lo - 1e-12 <= iou <= hi + 1e-12):
        raise Violation("two-random-crop:overlap-outside-range", f"{iou} not in [{lo},{hi}] without out_of_tries")
    return Case(_near(spec, th, tw) or spec["omin"] is not None, ["out_of_tries" if p["out_of_tries"] else "in-range"])


def check_random_resized_crop(spec):
    from kappadata.transforms import KDRandomResizedCrop
    x = img(spec, spec["pil"])
    H, W = size_hw(x)
    size = (spec["th"], spec["tw"])
    t = KDRandomResizedCrop(size=size, scale=tuple(spec["scale"]), ratio=tuple(spec["ratio"]), interpolation=spec["interp"]).set_rng(rng_of(spec))
    ctx = {}
    y = t(x, ctx)
    if size_hw(y) != size:
        raise Violation("random-resized-crop:output-size", f"{size_hw(y)} vs {size}")
    p = ctx["random_resized_crop"]
    if (p["og_h"], p["og_w"]) != (H, W):
        raise Violation("random-resized-crop:recorded-original-size", f"{p} vs {(H, W)}")
    i, j, h, w = p["i"], p["j"], p["h"], p["w"]
    if not (h > 0 and w > 0 and 0 <= i and i + h <= H and 0 <= j and j + w <= W):
        raise Violation("random-resized-crop:recorded-box-out-of-bounds", f"{p} in {(H, W)}")
    if not eq(F.resized_crop(x, i, j, h, w, list(size), InterpolationMode(spec["interp"])), y):
        raise Violation("random-resized-crop:ctx-does-not-reproduce-output", f"{p}")
    return Case(_near(spec, *size) or max(H, W) > 4 * min(H, W), ["pil" if spec["pil"] else "tensor"])


def check_simple_random_crop(spec):
    from kappadata.transforms import KDSimpleRandomCrop
    from torchvision.transforms import Resize
    x = img(spec, spec["pil"])
    s, pad = spec["size"], spec["pad"]
    t = KDSimpleRandomCrop(size=s, padding=pad, interpolation=spec["interp"], padding_mode=spec["mode"]).set_rng(rng_of(spec))
    ctx = {}
    xr = Resize(size=s, interpolation=InterpolationMode(spec["interp"]))(x)
    try:
        xp = F.pad(xr, pad, 0, spec["mode"])
    except Exception:
        raise Refused("torchvision pad rejects the padding for this image")
    H, W = size_hw(xp)
    try:
        y = t(x, ctx)
    except ValueError:
        if s > H or s > W:
            raise Refused("crop larger than padded image")
        raise Violation("simple-random-crop:raises-for-fitting-crop", f"size {s} padded {(H, W)}")
    if size_hw(y) != (s, s):
        raise Violation("simple-random-crop:output-size", f"{size_hw(y)} vs {(s, s)}")
    p = ctx["random_crop"]
    i, j, h, w = p["i"], p["j"], p["h"], p["w"]
    if not (0 <= i and i + h <= H and 0 <= j and j + w <= W):
        raise Violation("simple-random-crop:recorded-box-out-of-bounds", f"{p} in {(H, W)}")
    if not eq(F.crop(xp, i, j, h, w), y):
        raise Violation("simple-random-crop:ctx-does-not-reproduce-output", f"{p}")
    return Case(True, ["pil" if spec["pil"] else "tensor"])


def check_random_erasing(spec):
    from kappadata.transforms import KDRandomErasing
    x = img(spec, c=spec["c"])
    x = x + 1.0  # strictly positive, so a zeroed or re-drawn pixel is recognisable
    t = KDRandomErasing(p=1.0, mode=spec["mode"], min_area=spec["amin"], max_area=spec["amax"], min_aspect=spec["asp"],
                        min_count=1, max_count=None).set_rng(rng_of(spec))
    y = t(x.clone(), {})
    if y.shape != x.shape:
        raise Violation("random-erasing:shape", f"{y.shape} vs {x.shape}")
    changed = (y != x).any(dim=0)
    if changed.any():
        rows = changed.any(dim=1).nonzero().flatten()
        cols = changed.any(dim=0).nonzero().flatten()
        r0, r1, c0, c1 = int(rows[0]), int(rows[-1]), int(cols[0]), int(cols[-1])
        box = changed[r0:r1 + 1, c0:c1 + 1]
        if spec["mode"] in ("zeros", "pixelwise", "channelwise") and not bool(box.all()):
            raise Violation("random-erasing:changed-region-is-not-one-box", f"bounding box rows {r0}-{r1} cols {c0}-{c1} not fully changed")
        H, W = x.shape[-2:]
        if (r1 - r0 + 1) >= H and (c1 - c0 + 1) >= W and H > 1 and W > 1:
            raise Violation("random-erasing:whole-image-erased", "")
        if spec["mode"] == "zeros" and not bool((y[:, r0:r1 + 1, c0:c1 + 1] == 0).all()):
            raise Violation("random-erasing:box-not-zero", "")
    return Case(min(spec["h"], spec["w"]) <= 2 or bool(changed.any()), ["changed" if changed.any() else "unchanged", spec["mode"]])


def check_spec_augment(spec):
    from kappadata.transforms.audio.kd_spec_augment import KDSpecAugment
    x = img(spec, c=spec["c"]) + 1.0
    tm, fm = spec["tm"], spec["fm"]
    if tm is None and fm is None:
        fm = 1
    t = KDSpecAugment(time_masking=tm, frequency_masking=fm).set_rng(rng_of(spec))
    y = t(x.clone(), {})
    if y.shape != x.shape:
        raise Violation("spec-augment:shape", "")
    changed = (y != x)
    if not bool((y[changed] == 0).all()):
        raise Violation("spec-augment:changed-value-not-fill", "")
    ch = changed.any(dim=0)
    H, W = ch.shape
    full_rows = [r for r in range(H) if bool(ch[r].all())]
    full_cols = [c for c in range(W) if bool(ch[:, c].all())]
    # every changed cell lies in a fully masked row (axis 1 band) or a fully masked column (axis 2 band)
    cover = torch.zeros_like(ch)
    for r in full_rows:
        cover[r] = True
    for c in full_cols:
        cover[:, c] = True
    if not torch.equal(cover, ch):
        raise Violation("spec-augment:change-not-confined-to-bands", "")

    def contiguous(v):
        return not v or v == list(range(v[0], v[-1] + 1))
    if len(full_rows) < H and len(full_cols) < W:
        if not contiguous(full_rows) or not contiguous(full_cols):
            raise Violation("spec-augment:band-not-contiguous", f"rows {full_rows} cols {full_cols}")
        if full_rows and (tm is None or len(full_rows) >= max(1, tm)):
            raise Violation("spec-augment:axis1-band-too-wide", f"{len(full_rows)} rows masked, mask_param {tm}")
        if full_cols and (fm is None or len(full_cols) >= max(1, fm)):
            raise Violation("spec-augment:axis2-band-too-wide", f"{len(full_cols)} cols masked, mask_param {fm}")
    return Case(bool(ch.any()) or min(H, W) == 1, ["changed" if ch.any() else "unchanged"])


def _coord_pair(h, w, kind="index", key=0):
    """image carries its own coordinates; the mask is either the linear index or a category map dominated by one class"""
    rows = torch.arange(h).view(h, 1).expand(h, w).float()
    cols = torch.arange(w).view(1, w).expand(h, w).float()
    x = torch.stack([rows, cols, torch.zeros(h, w)])
    if kind == "index":
        mask = (torch.arange(h).view(h, 1) * w + torch.arange(w).view(1, w)).long()
    else:
        g = np.random.default_rng([key, h, w])
        mask = torch.zeros(h, w, dtype=torch.long)
        for _ in range(max(1, (h * w) // 12)):
            mask[int(g.integers(0, h)), int(g.integers(0, w))] = int(g.integers(1, 4))
    return x, mask


def _in_register(x, m, m0):
    """every valid mask pixel equals the original mask at the coordinates its image pixel carries"""
    valid = m != -1
    r = x[0].round().long().clamp(0, m0.shape[0] - 1)
    c = x[1].round().long().clamp(0, m0.shape[1] - 1)
    return bool(torch.equal(m0[r[valid], c[valid]], m[valid])), int((m0[r, c] != m)[valid].sum()), int(valid.sum())


def _semseg_t(s):
    import kappadata.transforms as T
    return getattr(T, s["k"])(**s["a"])


def check_semseg(spec):
    h, w = spec["h"], spec["w"]
    x, m = _coord_pair(h, w, spec.get("mask", "index"), spec["seed"])
    m0 = m.clone()
    rng = rng_of(spec)
    labels = [spec.get("mask", "index")]
    # the same pipeline over the same geometry with the image member as a PIL image (a second generator with the same seed makes the
    # same draws): the geometry of a step does not depend on the form the image comes in, so the sizes must agree step by step
    xp = Image.fromarray(np.random.default_rng(5).integers(0, 255, size=(h, w, 3), dtype=np.uint8))
    mp, rngp = m.clone(), rng_of(spec)
    for s in spec["ts"]:
        t = _semseg_t(s)
        t.set_rng(rng)
        if xp is not None:
            tp = _semseg_t(s)
            tp.set_rng(rngp)
            try:
                xp, mp = tp((xp, mp), {})
            except Exception:
                xp = None  # this member does not take PIL images (or refused): the comparison ends here
        before = size_hw(x)
        try:
            x, m = t((x, m), {})
        except RuntimeError as e:
            if "greater than 0" in str(e):
                raise Refused("resize to an empty image")
            raise
        if size_hw(x) != tuple(m.shape[-2:]):
            raise Violation(f"semseg:image-and-mask-size-differ:{s['k']}", f"{size_hw(x)} vs {tuple(m.shape)}")
        if s["k"] == "KDSemsegResize":
            sz = s["a"]["size"]
            sz = (sz, sz) if isinstance(sz, int) else tuple(sz)
            if size_hw(x) != sz:
                raise Violation("semseg:resize-output-size", f"{size_hw(x)} vs {sz}")
        if s["k"] == "KDSemsegRandomCrop":
            sz = s["a"]["size"]
            sz = (sz, sz) if isinstance(sz, int) else tuple(sz)
            exp = (min(before[0], sz[0]), min(before[1], sz[1]))
            if size_hw(x) != exp:
                raise Violation("semseg:random-crop-output-size", f"{size_hw(x)} vs {exp} (input {before})")
        if s["k"] == "KDSemsegPad":
            sz = s["a"]["size"]
            sz = (sz, sz) if isinstance(sz, int) else tuple(sz)
            exp = (max(before[0], sz[0]), max(before[1], sz[1]))
            if size_hw(x) != exp:
                raise Violation("semseg:pad-output-size", f"{size_hw(x)} vs {exp}")
        ok, bad, tot = _in_register(x, m, m0)
        if not ok:
            raise Violation(f"semseg:image-and-mask-geometry-differ:{s['k']}", f"{bad} of {tot} valid pixels disagree after {s}")
        if xp is not None:
            if size_hw(xp) != size_hw(x) or tuple(mp.shape[-2:]) != size_hw(x):
                raise Violation(f"semseg:pil-image-gets-other-geometry-than-tensor-image:{s['k']}",
                                f"after {s}: PIL image {size_hw(xp)} / its mask {tuple(mp.shape[-2:])}, tensor image {size_hw(x)} (input {before})")
            labels.append("pil")
        labels.append(s["k"])
    return Case(len(spec["ts"]) >= 2 or min(h, w) <= 2, labels)


def check_semseg_wrapper(spec):
    from kappadata.datasets import KDDataset
    from kappadata.wrappers import ModeWrapper, SemsegTransformWrapper
    h, w = spec["h"], spec["w"]

    class Root(KDDataset):
        def __len__(self):
            return 3

        def getitem_x(self, idx, ctx=None):
            return _coord_pair(h, w, spec.get("mask", "index"), spec["seed"])[0]

        def getitem_semseg(self, idx, ctx=None):
            return _coord_pair(h, w, spec.get("mask", "index"), spec["seed"])[1]

    ds = SemsegTransformWrapper(Root(), transforms=[_semseg_t(s) for s in spec["ts"]], seed=spec["seed"] % 1000)
    mw = ModeWrapper(ds, mode=spec["mode"])
    try:
        got = mw[spec["idx"]]
    except RuntimeError as e:
        if "greater than 0" in str(e):
            raise Refused("resize to an empty image")
        raise
    items = dict(zip(spec["mode"].split(" "), got if isinstance(got, tuple) else (got,)))
    if "x" in items and "semseg" in items:
        x, m = items["x"], items["semseg"]
        m0 = _coord_pair(h, w, spec.get("mask", "index"), spec["seed"])[1]
        if size_hw(x) != tuple(m.shape[-2:]) or not _in_register(x, m, m0)[0]:
            raise Violation("semseg-wrapper:image-and-mask-geometry-differ", f"mode {spec['mode']} transforms {spec['ts']}")
    # the single-item requests describe the same draw as the joint one
    x1, m1 = ModeWrapper(ds, mode="x")[spec["idx"]], ModeWrapper(ds, mode="semseg")[spec["idx"]]
    m0 = _coord_pair(h, w, spec.get("mask", "index"), spec["seed"])[1]
    if size_hw(x1) != tuple(m1.shape[-2:]) or not _in_register(x1, m1, m0)[0]:
        raise Violation("semseg-wrapper:separate-requests-differ-in-geometry", f"transforms {spec['ts']}")
    return Case(True, [spec["mode"].replace(" ", "_")])


def check_patchify(spec):
    import kappadata.transforms as T
    ph, pw, lh, lw, c = spec["ph"], spec["pw"], spec["lh"], spec["lw"], spec["c"]
    x = img({"h": ph * lh, "w": pw * lw, "key": spec["key"]}, c=c)
    p = T.Patchify((ph, pw))(x.clone())
    if tuple(p.shape) != (c, lh, lw, ph, pw):
        raise Violation("patchify:shape", str(tuple(p.shape)))
    # patch (a,b) is the (a,b)-th block of the image
    a, b = spec["a"] % lh, spec["b"] % lw
    if not torch.equal(p[:, a, b], x[:, a * ph:(a + 1) * ph, b * pw:(b + 1) * pw]):
        raise Violation("patchify:patch-content", f"patch {(a, b)}")
    if not torch.equal(T.Unpatchify()(p), x):
        raise Violation("patchify:unpatchify-is-not-the-inverse", "")
    ctx = {}
    q = T.PatchifyImage((ph, pw))(x.clone(), ctx)
    if tuple(q.shape) != (c, lh * lw, ph, pw) or (ctx.get("patchify_lh"), ctx.get("patchify_lw")) != (lh, lw):
        raise Violation("patchify-image:shape-or-ctx", f"{tuple(q.shape)} {ctx}")
    if not torch.equal(q[:, a * lw + b], x[:, a * ph:(a + 1) * ph, b * pw:(b + 1) * pw]):
        raise Violation("patchify-image:patch-content", "")
    if not torch.equal(T.UnpatchifyImage()(q, ctx), x):
        raise Violation("patchify-image:unpatchify-is-not-the-inverse", "")
    sh = T.PatchwiseShuffle().set_rng(rng_of(spec))
    qs = sh(q.clone(), ctx)
    perm = np.array(ctx["permutation"], copy=True)
    if sorted(perm.tolist()) != list(range(lh * lw)):
        raise Violation("patchwise-shuffle:recorded-permutation-invalid", str(perm))
    back = qs[:, np.argsort(perm)]
    if not torch.equal(T.UnpatchifyImage()(back, ctx), x):
        raise Violation("patchwise-shuffle:recorded-permutation-does-not-undo", "")
    # the same instance shuffles a second sample: the permutation recorded for the first one must still undo the first output
    ctx2 = {}
    q2 = T.PatchifyImage((ph, pw))(x.clone() + 1, ctx2)
    qs2 = sh(q2.clone(), ctx2)
    perm_again = np.asarray(ctx["permutation"])
    if not np.array_equal(perm_again, perm):
        raise Violation("patchwise-shuffle:earlier-recorded-permutation-changed-by-a-later-call", f"{perm.tolist()} became {perm_again.tolist()}")
    if not torch.equal(T.UnpatchifyImage()(qs2[:, np.argsort(np.asarray(ctx2["permutation"]))], ctx2), x + 1):
        raise Violation("patchwise-shuffle:recorded-permutation-does-not-undo:second-call", "")
    return Case(ph != pw or lh != lw, [])


def check_norm(spec):
    from kappadata.transforms import KDImageNorm, KDImageRangeNorm
    c = spec["c"]
    x = img(spec, c=c)
    rng = np.random.default_rng(spec["seed"])
    mean = tuple(float(v) for v in rng.uniform(-1, 1, size=c).round(4))
    std = tuple(float(v) for v in rng.uniform(0.05, 2, size=c).round(4))
    for kind in ("image", "range"):
        mk = (lambda **kw: KDImageNorm(mean=mean, std=std, **kw)) if kind == "image" else (lambda **kw: KDImageRangeNorm(**kw))
        for inplace in (True, False):
            n = mk(inplace=inplace)
            d = mk(inverse=True, inplace=inplace)
            xin = x.clone()
            y = n(xin)
            if not inplace and not torch.equal(xin, x):
                raise Violation(f"norm:copy-mode-modifies-input:{kind}", "")
            if kind == "image":
                exp = (x - torch.tensor(mean).view(c, 1, 1)) / torch.tensor(std).view(c, 1, 1)
            else:
                exp = (x - 0.5) / 0.5
            if not torch.allclose(y, exp, rtol=1e-5, atol=1e-5):
                raise Violation(f"norm:normalised-value-wrong:{kind}", "")
            yin = y.clone()
            z = d(yin)
            if not inplace and not torch.equal(yin, y):
                raise Violation(f"norm:copy-mode-denorm-modifies-input:{kind}", f"max diff {float((yin - y).abs().max())}")
            if not torch.allclose(z, x, rtol=1e-4, atol=1e-5):
                raise Violation(f"norm:denorm-is-not-the-inverse:{kind}", f"max diff {float((z - x).abs().max())}")
            # the other direction, on the very objects a caller holds: norm(denorm(y)) is y again
            y2 = n(z.clone())
            if not torch.allclose(y2, y, rtol=1e-4, atol=1e-4):
                raise Violation(f"norm:norm-of-denorm-is-not-the-input:{kind}", f"max diff {float((y2 - y).abs().max())}")
    return Case(True, [])


def guarded(name, fn):
    """the property says the transforms handle every accepted input: an exception that is not a documented refusal
    (raised inside kappadata for a generated, valid input) is a violation, not a harness error"""
    import traceback

    def run(spec):
        try:
            return fn(spec)
        except (Violation, Refused):
            raise
        except Exception as e:
            tb = traceback.extract_tb(e.__traceback__)
            inside = [f for f in tb if "/kappadata/" in f.filename]
            if not inside:
                raise
            where = inside[-1].filename.split("/")[-1]
            raise Violation(f"{name}:raises:{type(e).__name__}:{where}", f"{e!r}"[:300])
    return run


# ------------------------------------------------------------------------------------------ strategies
def dims():
    return st.one_of(st.integers(1, 48), st.sampled_from([1, 2, 7, 8, 9, 31, 32, 33]))


SEED = st.integers(0, 2 ** 32 - 1)


@st.composite
def crop_spec(draw):
    th, tw = draw(st.integers(1, 20)), draw(st.integers(1, 20))
    near = draw(st.booleans())
    h = draw(st.sampled_from([th - 1, th, th + 1, 4 * th + 3])) if near else draw(dims())
    w = draw(st.sampled_from([tw - 1, tw, tw + 1, 4 * tw + 3])) if near else draw(dims())
    return {"h": max(1, h), "w": max(1, w), "th": th, "tw": tw, "pil": draw(st.booleans()), "key": draw(st.integers(0, 99)),
            "padding": draw(st.sampled_from([None, None, 1, 4, [1, 2], [1, 2, 3, 0]])), "pin": draw(st.booleans()),
            "mode": draw(st.sampled_from(["constant", "edge", "reflect"])), "seed": draw(SEED)}


@st.composite
def two_crop_spec(draw):
    s = draw(crop_spec())
    s.update(omin=draw(st.sampled_from([None, 0.1, 0.3])), omax=draw(st.sampled_from([None, 0.5, 0.9])), tries=draw(st.sampled_from([1, 5, 20])))
    if s["omin"] and s["omax"] and s["omin"] > s["omax"]:
        s["omin"] = None
    return s


@st.composite
def rrc_spec(draw):
    s = draw(crop_spec())
    s.update(scale=draw(st.sampled_from([[0.08, 1.0], [0.3, 0.6], [0.9, 1.0], [0.01, 0.05]])),
             ratio=draw(st.sampled_from([[0.75, 4 / 3], [0.2, 5.0], [1.0, 1.0]])),
             interp=draw(st.sampled_from(["bilinear", "bicubic", "nearest"])))
    return s


@st.composite
def simple_spec(draw):
    size = draw(st.integers(2, 16))
    return {"h": draw(st.integers(2, 40)), "w": draw(st.integers(2, 40)), "size": size, "pad": draw(st.integers(0, 4)),
            "interp": draw(st.sampled_from(["bilinear", "bicubic", "nearest"])), "mode": draw(st.sampled_from(["constant", "reflect", "edge"])),
            "pil": draw(st.booleans()), "key": draw(st.integers(0, 99)), "seed": draw(SEED)}


ERASE = st.fixed_dictionaries({"h": dims(), "w": dims(), "c": st.sampled_from([1, 3]), "key": st.integers(0, 99), "seed": SEED,
                               "mode": st.sampled_from(["zeros", "pixelwise", "channelwise"]),
                               "amin": st.sampled_from([0.02, 0.1]), "amax": st.sampled_from([1 / 3, 0.5, 0.9]), "asp": st.sampled_from([0.3, 0.1, 1.0])})
SPECAUG = st.fixed_dictionaries({"h": dims(), "w": dims(), "c": st.sampled_from([1, 2]), "key": st.integers(0, 99), "seed": SEED,
                                 "tm": st.sampled_from([None, 1, 2, 5, 20, 100]), "fm": st.sampled_from([None, 1, 3, 8, 100])})
SEMSEG_TS = st.lists(st.one_of(
    st.just({"k": "KDSemsegRandomHorizontalFlip", "a": {"p": 0.5}}),
    st.fixed_dictionaries({"k": st.just("KDSemsegPad"), "a": st.fixed_dictionaries({"size": st.sampled_from([4, 12, [6, 20], 33])})}),
    st.fixed_dictionaries({"k": st.just("KDSemsegResize"), "a": st.fixed_dictionaries({"size": st.sampled_from([5, [4, 9], 16]), "interpolation": st.just("nearest")})}),
    st.fixed_dictionaries({"k": st.just("KDSemsegRandomResize"), "a": st.fixed_dictionaries({"base_size": st.sampled_from([[8, 12], [16, 16]]), "ratio": st.sampled_from([[0.5, 2.0], [1.0, 1.0]]), "interpolation": st.just("nearest")})}),
    st.fixed_dictionaries({"k": st.just("KDSemsegRandomCrop"), "a": st.fixed_dictionaries({"size": st.sampled_from([3, [4, 7], 12]), "max_category_ratio": st.sampled_from([1.0, 0.75, 0.5])})}),
), min_size=1, max_size=4)
SEMSEG = st.fixed_dictionaries({"h": st.integers(1, 24), "w": st.integers(1, 24), "seed": SEED, "ts": SEMSEG_TS,
                                "mask": st.sampled_from(["index", "dominated"])})
# inside the wrapper the paired transforms may be mixed with image-only ones; these two draw from the per-sample generator without
# changing a pixel (a flip that never fires, noise of scale zero), so the coordinate image keeps describing the geometry
_IMG_ONLY = st.sampled_from([{"k": "KDRandomHorizontalFlip", "a": {"p": 0.0}}, {"k": "KDAdditiveGaussianNoise", "a": {"std": 0.0}}])
SEMSEGW_TS = st.tuples(SEMSEG_TS, st.lists(st.tuples(st.integers(0, 4), _IMG_ONLY), max_size=2)).map(
    lambda t: (lambda ts: [ts.insert(min(pos, len(ts)), m) for pos, m in t[1]] and ts or ts)(list(t[0])))
SEMSEGW = st.fixed_dictionaries({"h": st.integers(2, 16), "w": st.integers(2, 16), "seed": SEED, "ts": SEMSEGW_TS, "idx": st.integers(0, 2),
                                 "mask": st.sampled_from(["index", "dominated"]),
                                 "mode": st.sampled_from(["x semseg", "semseg x", "x", "semseg"])})
PATCH = st.fixed_dictionaries({"ph": st.integers(1, 5), "pw": st.integers(1, 5), "lh": st.integers(1, 5), "lw": st.integers(1, 5),
                               "c": st.integers(1, 3), "key": st.integers(0, 99), "a": st.integers(0, 9), "b": st.integers(0, 9), "seed": SEED})
NORM = st.fixed_dictionaries({"h": st.integers(1, 12), "w": st.integers(1, 12), "c": st.integers(1, 4), "key": st.integers(0, 99), "seed": SEED})


def check_box_helpers(spec):
    """the library's two box-intersection helpers (corner form is what KDTwoRandomCrop records its overlap with, extent form is what a
    user recomputes it with from the recorded i/j/h/w) against a pixel count"""
    from kappadata.utils.bounding_box_utils import intersection_area_ijhw, intersection_area_ijkl
    (i0, j0, h0, w0), (i1, j1, h1, w1) = spec["a"], spec["b"]
    cells = {(r, c) for r in range(i0, i0 + h0) for c in range(j0, j0 + w0)} & {(r, c) for r in range(i1, i1 + h1) for c in range(j1, j1 + w1)}
    got_hw = intersection_area_ijhw(i0, j0, h0, w0, i1, j1, h1, w1)
    got_kl = intersection_area_ijkl(i0, j0, i0 + h0, j0 + w0, i1, j1, i1 + h1, j1 + w1)
    if got_hw != len(cells) or got_kl != len(cells):
        raise Violation("box-helpers:intersection-area-wrong", f"boxes {spec['a']} / {spec['b']} (i, j, h, w): extent form {got_hw}, corner form {got_kl}, "
                                                               f"pixel count {len(cells)}")
    disjoint_both = (i0 + h0 <= i1 or i1 + h1 <= i0) and (j0 + w0 <= j1 or j1 + w1 <= j0)
    return Case(len(cells) == 0 or len(cells) in (h0 * w0, h1 * w1), ["disjoint-both-axes" if disjoint_both else "disjoint" if not cells else "overlap"])


_BOX = st.tuples(st.integers(0, 12), st.integers(0, 12), st.integers(1, 8), st.integers(1, 8)).map(list)


def F_(name, fn, strat, q=300, t=5000):
    # (quick budgets doubled late in the session: the facets take about a second each, larger runs are less clustered)
    return Facet(name, guarded(name, fn), strategy=lambda tier, s=strat: s, budget={"quick": 2 * q, "thorough": t},
                 shards={"quick": 1, "thorough": 4}, min_nontrivial={"quick": q // 10, "thorough": t // 10}, case_timeout=60)


FACETS = [
    F_("random-crop", check_random_crop, crop_spec(), q=600, t=8000),
    F_("two-random-crop", check_two_random_crop, two_crop_spec(), q=400),
    F_("box-helpers", check_box_helpers, st.fixed_dictionaries({"a": _BOX, "b": _BOX}), q=300, t=3000),
    F_("random-resized-crop", check_random_resized_crop, rrc_spec(), q=500, t=8000),
    F_("simple-random-crop", check_simple_random_crop, simple_spec()),
    F_("random-erasing", check_random_erasing, ERASE, q=400),
    F_("spec-augment", check_spec_augment, SPECAUG, q=400),
    F_("semseg-transforms", check_semseg, SEMSEG, q=600, t=8000),
    F_("semseg-wrapper", check_semseg_wrapper, SEMSEGW),
    F_("patchify", check_patchify, PATCH),
    F_("norm", check_norm, NORM),
]
