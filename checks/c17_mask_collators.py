"""C17 - mask collators emit well-formed, budget-respecting, non-overlapping masks."""
import math
import signal

import numpy as np
import torch
from hypothesis import strategies as st

from vlib.core import Case, CaseTimeout, Facet, Refused, Violation, guarded

# thorough-tier budgets of every facet are multiplied by this factor (sized for ~5-8 min on 16 cores)
THOROUGH_SCALE = 4
LEVEL = "exploration"
RULE = ("DINO: batch 1-8, views 1-3 (x as tensor or list of views), grid h,w in [2,16], ratio range 0<=a<=b<=0.9, mask_prob in "
        "[0,1], min_num_patches, aspect bounds, seed -> ctx['mask'] bool (batch*views,h,w), non-empty masks <= "
        "floor(batch*views*mask_prob), every mask <= floor(b*h*w) cells (+1e-4*h*w for the float32 binning), batch unchanged, "
        "nothing added without ctx. I-JEPA: grid 3-16 via input_size/patch_size, scale/aspect ranges with blocks of >=1 patch that "
        "fit the grid, 1-4 predictor / 1-2 encoder masks, min_keep, tries, batch 1-6, seed, 1-4 consecutive calls -> indices in "
        "range, strictly increasing, predictor masks = index sets of rectangles of one common size per batch, encoder masks of one "
        "common length, encoder/predictor disjoint per sample whenever (smallest encoder block area) - n_pred*(largest predictor "
        "block area) > min_keep, equal predictor block size for two collators with different rng seeds at equal step counters, "
        "batch unchanged; non-trivial = non-integer mask_prob*batch*views, ratio range touching 0, non-square grid, >=2 predictor "
        "masks, second or later step; distinct = distinct spec hash")
ASSUMPTIONS = ["I-JEPA domain: the smallest possible encoder block has more than min_keep patches (otherwise the collator's - and the "
               "reference implementation's - relaxation loop cannot terminate); a 5 s alarm turns residual non-termination into a refusal, "
               "C17 makes no termination claim"]


def _samples(B, views, as_list, C=1, H=2, W=2, list_len=None):
    out = []
    for k in range(B):
        if as_list:
            # a multi-crop batch may carry more crops than masked views (e.g. 2 global + 4 local crops, num_views=2)
            x = [torch.full((C, H, W) if v < views else (C, 1, 1), float(k * 10 + v)) for v in range(list_len or views)]
        else:
            x = torch.full((C, H, W), float(k))
        out.append((x, {"tag": torch.tensor(float(k))}))
    return out


def check_dino(spec):
    from kappadata.collators import KDDinoMaskCollator
    B, V, h, w = spec["B"], spec["V"], spec["h"], spec["w"]
    a, b = spec["ratio"]
    # a list of views as the only item would be ambiguous for the static mode helpers (a bare list looks like an item tuple),
    # so multi-view batches use the two-item mode "index x" (as the library's own tests do)
    mode = "index x" if spec["as_list"] else "x"
    if spec.get("reassign_ratio"):
        # the collator is re-configured after construction (a ratio schedule): the ratios that are set when a batch arrives count
        coll = KDDinoMaskCollator(mask_ratio=(min(1.0, b + 0.3), 1.0), mask_prob=spec["prob"], mask_size=(h, w), num_views=V,
                                  min_num_patches=spec["min_patches"], min_aspect=spec["min_aspect"], dataset_mode=mode, return_ctx=True)
        coll.mask_ratio = (a, b)
    else:
        coll = KDDinoMaskCollator(mask_ratio=(a, b), mask_prob=spec["prob"], mask_size=(h, w), num_views=V,
                                  min_num_patches=spec["min_patches"], min_aspect=spec["min_aspect"], dataset_mode=mode, return_ctx=True)
    coll.set_rng(np.random.default_rng(spec["seed"]))
    samples = _samples(B, V, spec["as_list"], list_len=V + spec.get("extra_crops", 0))
    if spec["as_list"]:
        samples = [((k, s[0]), s[1]) for k, s in enumerate(samples)]
    batch, ctx = coll(samples)
    # batch unchanged
    exp = torch.utils.data.default_collate([s[0] for s in samples])

    def _same(a_, b_):
        if isinstance(b_, (list, tuple)):
            return isinstance(a_, (list, tuple)) and len(a_) == len(b_) and all(_same(x, y) for x, y in zip(a_, b_))
        return torch.equal(a_, b_)
    same = _same(batch, exp)
    if not same:
        raise Violation("dino:batch-changed", "")
    if ctx["tag"].tolist() != [float(k) for k in range(B)]:
        raise Violation("dino:per-sample-ctx-changed", "")
    m = ctx.get("mask")
    if m is None or m.dtype != torch.bool or tuple(m.shape) != (B * V, h, w):
        raise Violation("dino:mask-shape-or-dtype", f"{None if m is None else (m.dtype, tuple(m.shape))} expected bool {(B * V, h, w)}")
    counts = m.flatten(1).sum(dim=1)
    nonempty = int((counts > 0).sum())
    budget = math.floor(B * V * spec["prob"] + 1e-9)
    if nonempty > budget:
        raise Violation("dino:too-many-masked-samples", f"{nonempty} non-empty masks, floor({B}*{V}*{spec['prob']})={budget}")
    limit = math.floor(b * h * w + 1e-4 * h * w)
    if int(counts.max()) > limit:
        raise Violation("dino:mask-exceeds-upper-ratio", f"{int(counts.max())} cells masked, upper ratio {b} of {h * w} allows {limit}")
    # the same collator sees a batch of another size next (e.g. the incomplete last batch): the budget follows the batch
    B2 = spec.get("B2", B)
    s2 = _samples(B2, V, spec["as_list"], list_len=V + spec.get("extra_crops", 0))
    if spec["as_list"]:
        s2 = [((k, s_[0]), s_[1]) for k, s_ in enumerate(s2)]
    _, ctx2 = coll(s2)
    m2 = ctx2.get("mask")
    if m2 is None or tuple(m2.shape) != (B2 * V, h, w):
        raise Violation("dino:mask-shape-or-dtype:second-batch", f"{None if m2 is None else tuple(m2.shape)} expected {(B2 * V, h, w)}")
    ne2 = int((m2.flatten(1).sum(dim=1) > 0).sum())
    if ne2 > math.floor(B2 * V * spec["prob"] + 1e-9):
        raise Violation("dino:too-many-masked-samples:second-batch", f"{ne2} non-empty masks for a second batch of {B2} (first batch {B})")
    if int(m2.flatten(1).sum(dim=1).max()) > limit:
        raise Violation("dino:mask-exceeds-upper-ratio:second-batch", "")
    # without a context nothing is added and the batch is returned
    coll2 = KDDinoMaskCollator(mask_ratio=(a, b), mask_prob=spec["prob"], mask_size=(h, w), num_views=V, dataset_mode=mode, return_ctx=False)
    b2 = coll2([s[0] for s in samples])
    same = _same(b2, exp)
    if not same:
        raise Violation("dino:batch-changed-without-ctx", "")
    frac = B * V * spec["prob"]
    nt = abs(frac - round(frac)) > 1e-9 or a == 0 or h != w
    return Case(nt, ["list" if spec["as_list"] else "tensor", "V=%d" % V, "masked" if nonempty else "none-masked"])


class _Alarm:
    def __init__(self, s):
        self.s = s

    def _h(self, *a):
        raise TimeoutError()

    def __enter__(self):
        self.old = signal.signal(signal.SIGALRM, self._h)
        self.prev = signal.setitimer(signal.ITIMER_REAL, self.s, 0.05)

    def __exit__(self, *a):
        signal.setitimer(signal.ITIMER_REAL, 0)
        signal.signal(signal.SIGALRM, self.old)
        if self.prev[0] > 0:
            signal.setitimer(signal.ITIMER_REAL, max(0.1, self.prev[0] - self.s), 0.05)


def _block(H, W, scale, ar, rand):
    k = int(H * W * (scale[0] + rand * (scale[1] - scale[0])))
    a = ar[0] + rand * (ar[1] - ar[0])
    h = min(int(round(math.sqrt(k * a))), H - 1)
    w = min(int(round(math.sqrt(k / a))), W - 1)
    return h, w


def _areas(H, W, spec):
    grid = [i / 200 for i in range(201)]
    enc = [_block(H, W, spec["enc_scale"], (1.0, 1.0), r) for r in grid]
    pred = [_block(H, W, spec["pred_scale"], spec["pred_ar"], r) for r in grid]
    return enc, pred


def check_ijepa(spec):
    from kappadata.collators import KDIjepaMaskCollator
    H, W = spec["gh"], spec["gw"]
    ps = spec["patch"]
    ph, pw = (ps, ps) if isinstance(ps, int) else ps
    # images whose size is not a multiple of the patch size: the grid has as many patches as fit (the remainder is cut by the patch embedding)
    rh, rw = {"max": (ph - 1, pw - 1), "h": (ph - 1, 0), "half": (ph // 2, pw // 2)}.get(spec.get("rem"), (0, 0))
    enc, pred = _areas(H, W, spec)
    if min(min(e) for e in enc) < 1 or min(min(p) for p in pred) < 1:
        raise Refused("a configured block can have zero patches")
    a_enc_min = min(e[0] * e[1] for e in enc)
    a_pred_max = max(p[0] * p[1] for p in pred)
    if a_enc_min <= spec["min_keep"]:
        raise Refused("smallest encoder block does not exceed min_keep")
    disjoint_claimed = a_enc_min - spec["n_pred"] * a_pred_max > spec["min_keep"]
    B = spec["B"]

    def make(seed):
        c = KDIjepaMaskCollator(input_size=(H * ph + rh, W * pw + rw), patch_size=ps if isinstance(ps, int) else tuple(ps), encoder_mask_scale=tuple(spec["enc_scale"]),
                                predictor_mask_scale=tuple(spec["pred_scale"]), predictor_aspect_ratio=tuple(spec["pred_ar"]),
                                num_enc_masks=spec["n_enc"], num_pred_masks=spec["n_pred"], min_keep=spec["min_keep"],
                                tries=spec["tries"], dataset_mode="x", return_ctx=True)
        c.set_rng(np.random.default_rng(seed))
        return c
    c1, c2 = make(spec["seed"]), make(spec["seed"] + 7919)
    if spec.get("via") in ("wrapper", "compose"):
        # the first collator works as a member of a container that carries mode and return_ctx (the member's own stay at their defaults)
        from kappadata.collators import KDComposeCollator, KDSingleCollatorWrapper
        member = KDIjepaMaskCollator(input_size=(H * ph + rh, W * pw + rw), patch_size=ps if isinstance(ps, int) else tuple(ps), encoder_mask_scale=tuple(spec["enc_scale"]),
                                     predictor_mask_scale=tuple(spec["pred_scale"]), predictor_aspect_ratio=tuple(spec["pred_ar"]),
                                     num_enc_masks=spec["n_enc"], num_pred_masks=spec["n_pred"], min_keep=spec["min_keep"], tries=spec["tries"])
        member.set_rng(np.random.default_rng(spec["seed"]))
        c1 = (KDSingleCollatorWrapper(member, dataset_mode="x", return_ctx=True) if spec["via"] == "wrapper"
              else KDComposeCollator([member], dataset_mode="x", return_ctx=True))
    # a user subclass that overrides the public step() hook (e.g. to follow the trainer's update counter): block sizes follow the step
    # that hook reports - here the same numbers the plain collators count, although this object is called twice as often
    c3 = make(spec["seed"] + 104729)

    class _External(type(c3)):
        def step(self):
            return self.external_step
    c3.__class__ = _External
    samples = _samples(B, 1, False)
    exp = torch.utils.data.default_collate([s[0] for s in samples])
    evals = 0
    for step in range(spec["steps"]):
        dims = []
        for c in (c1, c2):
            try:
                with _Alarm(5.0):
                    batch, ctx = c(samples)
            except TimeoutError:
                raise Refused("collator did not return within 5 s (relaxation cannot reach min_keep)")
            if not torch.equal(batch, exp):
                raise Violation("ijepa:batch-changed", "")
            if "predictor_masks" not in ctx or "encoder_masks" not in ctx:
                raise Violation("ijepa:masks-missing-from-context", f"context keys {sorted(ctx)} (collator used {spec.get('via') or 'directly'})")
            pm, em = ctx["predictor_masks"], ctx["encoder_masks"]
            if pm.ndim != 2 or pm.shape[0] != spec["n_pred"] * B:
                raise Violation("ijepa:predictor-mask-shape", str(tuple(pm.shape)))
            if em.ndim != 2 or em.shape[0] != spec["n_enc"] * B:
                raise Violation("ijepa:encoder-mask-shape", str(tuple(em.shape)))
            for name, t in (("predictor", pm), ("encoder", em)):
                if t.numel() and (int(t.min()) < 0 or int(t.max()) >= H * W):
                    raise Violation(f"ijepa:{name}-index-out-of-range", f"[{int(t.min())},{int(t.max())}] for {H}x{W}")
                if t.shape[1] > 1 and not bool((t[:, 1:] > t[:, :-1]).all()):
                    raise Violation(f"ijepa:{name}-indices-not-sorted-or-duplicated", "")
            rect = None
            for row in pm:
                idx = row.tolist()
                rows = sorted({i // W for i in idx})
                cols = sorted({i % W for i in idx})
                ok = (rows == list(range(rows[0], rows[-1] + 1)) and cols == list(range(cols[0], cols[-1] + 1))
                      and len(idx) == len(rows) * len(cols))
                if not ok:
                    raise Violation("ijepa:predictor-mask-not-a-rectangle", str(idx))
                if rect is None:
                    rect = (len(rows), len(cols))
                elif rect != (len(rows), len(cols)):
                    raise Violation("ijepa:predictor-rectangles-differ-in-size", f"{rect} vs {(len(rows), len(cols))}")
            dims.append(rect)
            if disjoint_claimed:
                for bidx in range(B):
                    pset = set()
                    for p in range(spec["n_pred"]):
                        pset |= set(pm[p * B + bidx].tolist())
                    for e in range(spec["n_enc"]):
                        inter = pset & set(em[e * B + bidx].tolist())
                        if inter:
                            raise Violation("ijepa:encoder-intersects-predictor", f"sample {bidx}: shared patches {sorted(inter)[:8]}")
            if em.shape[1] <= spec["min_keep"]:
                raise Violation("ijepa:encoder-mask-not-above-min-keep", f"{em.shape[1]} <= {spec['min_keep']}")
            evals += 1
        if dims[0] != dims[1]:
            raise Violation("ijepa:block-size-depends-on-rng", f"step {step}: {dims[0]} vs {dims[1]} for different rng seeds")
        ext_dims = []
        for _ in range(2):
            c3.external_step = step  # the plain collators count 0, 1, 2, ...
            try:
                with _Alarm(5.0):
                    _, ctx3 = c3(samples)
            except TimeoutError:
                raise Refused("collator did not return within 5 s (relaxation cannot reach min_keep)")
            row = ctx3["predictor_masks"][0].tolist()
            ext_dims.append((len({i // W for i in row}), len({i % W for i in row})))
        if ext_dims[0] != dims[0] or ext_dims[1] != dims[0]:
            raise Violation("ijepa:block-size-does-not-follow-the-step-hook", f"step() reports {step}: predictor blocks {ext_dims}, a plain collator at "
                                                                              f"step {step} has {dims[0]}")
    nt = H != W or spec["n_pred"] >= 2 or spec["steps"] >= 2 or ph != pw
    return Case(nt, ["disjoint-claimed" if disjoint_claimed else "relaxation-possible", "steps=%d" % spec["steps"]], evals)


RATIO = st.tuples(st.sampled_from([0.0, 0.1, 0.3, 0.5]), st.sampled_from([0.0, 0.2, 0.5, 0.9])).map(lambda t: [min(t), max(t)])
DINO = st.fixed_dictionaries({"B": st.integers(1, 8), "V": st.integers(1, 3), "as_list": st.booleans(), "h": st.integers(2, 16),
                              "w": st.integers(2, 16), "ratio": RATIO, "prob": st.sampled_from([0.0, 0.25, 0.5, 0.3, 0.75, 1.0]),
                              "min_patches": st.sampled_from([1, 4, 8]), "min_aspect": st.sampled_from([0.3, 0.1, 1.0]),
                              "seed": st.integers(0, 2 ** 32 - 1), "extra_crops": st.sampled_from([0, 0, 1, 4]), "B2": st.integers(1, 8),
                              "reassign_ratio": st.booleans()})
IJEPA = st.fixed_dictionaries({"gh": st.integers(3, 16), "gw": st.integers(3, 16), "patch": st.sampled_from([1, 4, 16, [8, 4], [4, 8], [2, 3]]),
                               "rem": st.sampled_from([None, None, "max", "h", "half"]),
                               "enc_scale": st.sampled_from([[0.85, 1.0], [0.5, 0.7], [0.3, 0.3], [0.6, 1.0]]),
                               "pred_scale": st.sampled_from([[0.15, 0.2], [0.05, 0.1], [0.1, 0.3], [0.02, 0.02]]),
                               "pred_ar": st.sampled_from([[0.75, 1.5], [1.0, 1.0], [0.5, 2.0]]),
                               "n_enc": st.integers(1, 2), "n_pred": st.integers(1, 4), "min_keep": st.sampled_from([0, 1, 2, 4, 10]),
                               "tries": st.sampled_from([1, 5, 20]), "B": st.integers(1, 6), "seed": st.integers(0, 2 ** 31),
                               "steps": st.integers(1, 4), "via": st.sampled_from([None, None, "wrapper", "compose"])})

class _SampleDS(torch.utils.data.Dataset):
    def __init__(self, n):
        self.n = n

    def __len__(self):
        return self.n

    def __getitem__(self, k):
        return (torch.full((1, 2, 2), float(k)), {"tag": torch.tensor(float(k))})


def check_ijepa_shared_step(spec):
    """the step counter is one per collator object and shared by the worker processes forked from it: the batches of one pass through a
    two-worker DataLoader carry the block sizes of steps 0 .. n-1 (in whatever order the workers collate them)"""
    from kappadata.collators import KDIjepaMaskCollator
    G = spec["grid"]

    def make():
        c = KDIjepaMaskCollator(input_size=(G * 4, G * 4), patch_size=4, encoder_mask_scale=(0.85, 1.0), predictor_mask_scale=tuple(spec["pred_scale"]),
                                predictor_aspect_ratio=(0.75, 1.5), num_enc_masks=1, num_pred_masks=spec["n_pred"], min_keep=1, dataset_mode="x",
                                return_ctx=True)
        c.set_rng(np.random.default_rng(spec["seed"]))
        return c

    def dims(ctx):
        row = ctx["predictor_masks"][0].tolist()
        return (len({i // G for i in row}), len({i % G for i in row}))
    nb, B = spec["batches"], spec["B"]
    ref, exp = make(), []
    for _ in range(nb):
        exp.append(dims(ref([_SampleDS(B)[k] for k in range(B)])[1]))
    if len(set(exp)) < 2:
        raise Refused("all steps give the same block size")
    coll = make()  # never called in the main process
    loader = torch.utils.data.DataLoader(_SampleDS(nb * B), batch_size=B, num_workers=spec["workers"], collate_fn=coll)
    got = [dims(ctx) for _, ctx in loader]
    if sorted(got) != sorted(exp):
        raise Violation("ijepa:workers-do-not-share-the-step-counter", f"{spec['workers']} workers, {nb} batches: block sizes {got}, steps 0..{nb - 1} give {exp}")
    return Case(True, ["workers=%d" % spec["workers"]], nb)


IJEPA_W = st.fixed_dictionaries({"grid": st.sampled_from([8, 10]), "pred_scale": st.sampled_from([[0.05, 0.5], [0.1, 0.4]]), "n_pred": st.integers(1, 2),
                                 "batches": st.integers(4, 10), "B": st.integers(1, 3), "workers": st.sampled_from([2, 2, 3]), "seed": st.integers(0, 999)})

FACETS = [
    Facet("dino", guarded("dino", check_dino), strategy=lambda tier: DINO, budget={"quick": 3000, "thorough": 40000},
          shards={"quick": 6, "thorough": 12}, min_nontrivial={"quick": 500, "thorough": 5000}),
    Facet("ijepa", guarded("ijepa", check_ijepa), strategy=lambda tier: IJEPA, budget={"quick": 2000, "thorough": 30000},
          shards={"quick": 6, "thorough": 12}, min_nontrivial={"quick": 300, "thorough": 3000}, case_timeout=120),
    Facet("ijepa-shared-step", guarded("ijepa-shared-step", check_ijepa_shared_step), strategy=lambda tier: IJEPA_W,
          budget={"quick": 64, "thorough": 120}, shards={"quick": 8, "thorough": 12}, min_nontrivial={"quick": 10, "thorough": 40}, case_timeout=300),
]
