"""C20 - the global-to-local copy is crash-safe and idempotent (fault enumeration by killing forked children at
file-system events)."""
import io
import os
import pickle
import shutil
import sys
import tempfile
import zipfile
from pathlib import Path

import numpy as np
from hypothesis import strategies as st

from vlib.core import Case, Facet, Refused, Violation

LEVEL = "fault_enumeration"
RULE = ("scenario = source format (raw folder / single zip / folder of zips + README) x file tree (0-7 files, <=3 directory levels, "
        "incl. empty files) x relative_path (none / 1 / 2 components) x local pre-state (absent / parent exists / user-provided folder "
        "without markers) x function (copy_folder / copy_imagefolder) x a crash sequence of 0-3 attempts; every attempt runs in a "
        "forked child that is killed with os._exit at the k-th mutating file-system event under the local root (audit hook on open-"
        "for-write / mkdir / rmdir / remove / rename / chmod / utime / rmtree / copyfile ... plus a synthetic point between file "
        "creation and data write); random facet draws k as a fraction of the measured number of events, exhaustive facets enumerate "
        "ALL single crash points (and all pairs in the thorough tier) of fixed scenarios; oracle: after the sequence one "
        "uninterrupted call must return and leave a byte-identical copy (or the untouched user folder, was_copied=False), a second "
        "call performs zero mutating events and reports nothing done, results are truthful (was_copied <=> writes, was_deleted <=> an "
        "incomplete automatic copy was present before the call, no unreported removal inside the destination, format fields); non-trivial = >=1 attempt died strictly inside the copy; distinct = distinct (scenario, crash points)")
ASSUMPTIONS = ["crash = process death between two file-system operations (os._exit, no finally/flush); torn writes inside one file are "
               "approximated by the 'created / data written' points; no power-loss reordering",
               "crash injection uses in-process extraction (num_workers<=1); joblib workers are separate processes the hook cannot see"]

WORK = os.path.join(os.path.dirname(os.path.dirname(os.path.abspath(__file__))), ".work")
MARKERS = ("autocopy_start.txt", "autocopy_end.txt")


# ---------------------------------------------------------------------------------------------- scenario -> files
def _content(key, size):
    return np.random.default_rng([key, size]).integers(0, 256, size=size, dtype=np.uint8).tobytes()


def tree_of(spec):
    """{relpath: bytes} of the dataset content"""
    return {p: _content(k, s) for p, k, s in spec["tree"]}


LINK_PAYLOAD = b"payload-that-lives-outside-the-dataset-folder"


def expected_tree(spec):
    t = tree_of(spec)
    if spec["fmt"] == "raw" and spec.get("link"):
        t = dict(t, **{"linked.bin": LINK_PAYLOAD})  # a linked sample is part of the dataset: the copy holds its content
    if spec["fmt"] == "zips" and spec["fn"] == "imagefolder":
        # <class>.zip is extracted into dst/<class>/ ; top-level files end up in the zip 'misc'
        out = {}
        for p, b in t.items():
            top = p.split("/")[0] if "/" in p else "misc"
            out[f"{top}/{p}"] = b
        return out
    return t


def _write_tree(root, tree):
    for p, b in tree.items():
        f = Path(root) / p
        f.parent.mkdir(parents=True, exist_ok=True)
        f.write_bytes(b)


def _zip_tree(path, tree):
    with zipfile.ZipFile(path, "w") as z:
        for p, b in sorted(tree.items()):
            z.writestr(p, b)


def make_source(spec, gdir):
    """creates the source under gdir; returns global_path"""
    rel = spec["relative"]
    gpath = Path(gdir) / "ds"
    src = gpath / rel if rel else gpath
    tree = tree_of(spec)
    fmt = spec["fmt"]
    if fmt == "raw":
        src.mkdir(parents=True, exist_ok=True)
        _write_tree(src, tree)
        if spec.get("decoy_zip"):
            # an outdated archive of the same name lies next to the folder on the global storage: the folder is the dataset
            _zip_tree(src.with_suffix(".zip"), {"stale/old.bin": b"outdated content", "f.bin": b"old"})
        if spec.get("link"):
            # one sample of the plain-folder source is a relative symlink to a file outside the copied subtree (shared storage)
            outside = Path(gdir) / "outside"
            outside.mkdir(exist_ok=True)
            (outside / "payload.bin").write_bytes(LINK_PAYLOAD)
            os.symlink(os.path.relpath(outside / "payload.bin", start=src), src / "linked.bin")
    elif fmt == "zip":
        src.parent.mkdir(parents=True, exist_ok=True)
        _zip_tree(src.with_suffix(".zip"), tree)
    else:
        src.mkdir(parents=True, exist_ok=True)
        groups = {}
        for p, b in tree.items():
            top = p.split("/")[0] if "/" in p else "misc"
            groups.setdefault(top, {})[p] = b
        if not groups:
            groups["misc"] = {}
        for top, sub in groups.items():
            _zip_tree(src / f"{top}.zip", sub)
        if spec.get("zip_link"):
            # the first archive lives in a blob store; the dataset folder holds a symlink to it
            first = sorted(groups)[0]
            blobs = Path(gdir) / "blobs"
            blobs.mkdir(exist_ok=True)
            shutil.move(src / f"{first}.zip", blobs / f"{first}.blob")
            os.symlink(blobs / f"{first}.blob", src / f"{first}.zip")
        # extra non-zip files are allowed as long as the folder consists "mostly" of zips: #zips >= #entries // 2
        extras = ["README", "LICENSE"][:int(spec.get("readme") or 0)]
        while extras and len(groups) < (len(groups) + len(extras)) // 2:
            extras.pop()
        for name in extras:
            (src / name).write_text("not part of the dataset")
        if spec.get("decoy_zip"):
            _zip_tree(src.with_suffix(".zip"), {"stale/old.bin": b"outdated content"})
        if spec.get("bad_zip"):
            # one archive of the folder is damaged (zero bytes / truncated upload): the source cannot be copied completely
            (src / "zz_broken.zip").write_bytes(b"" if spec["bad_zip"] == 1 else b"PK\x03\x04 truncated")
    return gpath


def read_tree(root):
    out = {}
    root = Path(root)
    if not root.exists():
        return None
    for dp, dn, fn in os.walk(root):
        for f in fn:
            full = Path(dp) / f
            try:
                out[str(full.relative_to(root))] = full.read_bytes()
            except FileNotFoundError:
                out[str(full.relative_to(root))] = b"<dangling symlink>"
    return out


# ---------------------------------------------------------------------------------------------- fault injection
MUTATING = {"os.mkdir", "os.rmdir", "os.remove", "os.rename", "os.replace", "os.chmod", "os.utime", "os.truncate", "os.link",
            "os.symlink", "shutil.rmtree", "shutil.copyfile", "shutil.move", "os.chown"}
REMOVALS = {"os.rmdir", "os.remove", "shutil.rmtree"}


def _call(spec, gpath, lpath):
    if spec["fn"] == "folder":
        from kappadata.copying.folder import copy_folder_from_global_to_local as fn
    else:
        from kappadata.copying.image_folder import copy_imagefolder_from_global_to_local as fn
    rel = spec["relative"]
    form = spec.get("path_form") or "path"
    if form == "symlink":
        # the local disk is reached through a symlinked parent (/local -> /scratch/user): the path given differs from its resolved form
        real_parent = Path(lpath).parent
        link = real_parent.parent / "lnk"
        if not link.is_symlink():
            os.symlink(real_parent, link)
        lpath = link / Path(lpath).name
    elif form == "tilde":
        # the local path is given relative to the home directory ("~/data"): HOME points at the scenario's local root (child process only)
        os.environ["HOME"] = str(Path(lpath).parent)
        lpath = "~/" + Path(lpath).name
    elif form == "relcwd":
        # a local path relative to the working directory (this runs in the forked child only)
        os.chdir(Path(lpath).parent)
        lpath = Path(Path(lpath).name)
    if form == "str":
        gpath, lpath = str(gpath), str(lpath)  # both path arguments are documented as str or Path
    elif form == "rel_path" and rel is not None:
        rel = Path(rel)
    if spec.get("call") == "positional":
        # documented order: global_path, local_path, relative_path, num_workers
        return fn(gpath, lpath, rel, spec.get("workers", 0))
    return fn(global_path=gpath, local_path=lpath, relative_path=rel, num_workers=spec.get("workers", 0))


def run_attempt(spec, gpath, lpath, kill_at=None):
    """runs one invocation in a forked child; kill_at = index of the mutating event BEFORE which the child dies (None = never).
    returns dict(status='killed'|'ok'|'raised', events=[...], result=..., error=...)"""
    r, w = os.pipe()
    pid = os.fork()
    if pid == 0:
        os.close(r)
        # grandchildren (joblib/loky workers) must not inherit the runner's stdout/stderr pipes
        dn = os.open(os.devnull, os.O_RDWR)
        os.dup2(dn, 1)
        os.dup2(dn, 2)
        events = []
        lroot = os.path.realpath(str(Path(lpath).parent))

        def under(p):
            try:
                return os.path.realpath(os.fspath(p)).startswith(lroot)
            except Exception:
                return False

        def tick(name, path):
            try:
                rel = os.path.relpath(os.path.realpath(os.fspath(path)), lroot)
            except Exception:
                rel = "?"
            if kill_at is not None and len(events) == kill_at:
                _send(w, {"status": "killed", "events": events + [(name + "!", rel)]})
                os._exit(137)
            events.append((name, rel))

        def hook(event, args):
            try:
                if event == "open":
                    path, mode, flags = args
                    if isinstance(path, (str, bytes, os.PathLike)) and isinstance(flags, int) and \
                            flags & (os.O_WRONLY | os.O_RDWR | os.O_CREAT | os.O_TRUNC | os.O_APPEND) and under(path):
                        tick("open-w", path)
                elif event in MUTATING:
                    p = args[0] if args else None
                    if p is not None and isinstance(p, (str, bytes, os.PathLike)) and under(p):
                        tick(event, p)
                    elif event in ("os.rename", "os.replace", "shutil.copyfile", "shutil.move") and len(args) > 1 and under(args[1]):
                        tick(event, args[1])
            except SystemExit:
                raise
            except Exception:
                pass
        # synthetic point between file creation and data write
        orig_cfo = shutil.copyfileobj
        orig_sf = getattr(shutil, "_fastcopy_sendfile", None)

        def cfo(fsrc, fdst, *a, **k):
            name = getattr(fdst, "name", None)
            if isinstance(name, (str, bytes)) and under(name):
                tick("data", name)
            return orig_cfo(fsrc, fdst, *a, **k)
        shutil.copyfileobj = cfo
        if orig_sf is not None:
            def sf(fsrc, fdst):
                name = getattr(fdst, "name", None)
                if isinstance(name, (str, bytes)) and under(name):
                    tick("data", name)
                return orig_sf(fsrc, fdst)
            shutil._fastcopy_sendfile = sf
        sys.addaudithook(hook)
        try:
            res = _call(spec, gpath, lpath)
            out = {"status": "ok", "events": events, "result": {k: getattr(res, k) for k in
                                                                  ("was_copied", "was_deleted", "source_format", "was_zip", "was_zip_classwise")
                                                                  if hasattr(res, k)}}
        except BaseException as e:  # noqa
            out = {"status": "raised", "events": events, "error": repr(e)[:300]}
        try:
            _send(w, out)
            if spec.get("workers", 0) >= 2:
                try:
                    from joblib.externals.loky import get_reusable_executor
                    get_reusable_executor().shutdown(wait=True, kill_workers=True)
                except Exception:
                    pass
        finally:
            os._exit(0)
    os.close(w)
    # length-prefixed message: grandchildren (joblib workers) may inherit the write end, so EOF cannot be waited for
    head = _read_exact(r, 8)
    data = _read_exact(r, int.from_bytes(head, "big")) if len(head) == 8 else b""
    os.close(r)
    os.waitpid(pid, 0)
    if not data:
        return {"status": "killed", "events": []}
    return pickle.loads(data)


def _send(fd, obj):
    data = pickle.dumps(obj)
    os.write(fd, len(data).to_bytes(8, "big") + data)


def _read_exact(fd, n):
    buf = b""
    while len(buf) < n:
        b = os.read(fd, n - len(buf))
        if not b:
            break
        buf += b
    return buf


class Scenario:
    def __init__(self, spec):
        os.makedirs(WORK, exist_ok=True)
        self.spec = spec
        self.dir = tempfile.mkdtemp(prefix="c20_", dir=WORK)
        self.gpath = make_source(spec, os.path.join(self.dir, "g"))
        self.lroot = Path(self.dir) / "l"
        self.lpath = self.lroot / "local"
        self.lroot.mkdir()
        rel = spec["relative"]
        self.dst = self.lpath / rel if rel else self.lpath
        self.user_tree = None
        if spec["pre"] == "parent":
            self.dst.parent.mkdir(parents=True, exist_ok=True)
        elif spec["pre"] == "user":
            self.user_tree = {"mine/a.bin": b"user-data", "b.txt": b""}
            self.dst.mkdir(parents=True)
            _write_tree(self.dst, self.user_tree)
        elif spec["pre"] == "user_empty":
            # a folder the user created (and has not filled yet) is a user-provided folder too
            self.user_tree = {}
            self.dst.mkdir(parents=True)

    def count_ops(self):
        """number of mutating events of an uninterrupted attempt on a throw-away copy of the current local state"""
        scratch = Path(self.dir) / "scratch"
        if scratch.exists():
            shutil.rmtree(scratch)
        shutil.copytree(self.lroot, scratch / "l", symlinks=True)
        out = run_attempt(self.spec, self.gpath, scratch / "l" / "local")
        shutil.rmtree(scratch)
        return len(out["events"]), out

    def close(self):
        shutil.rmtree(self.dir, ignore_errors=True)


def judge(sc, killed_inside):
    """final uninterrupted call + idempotence call; raises Violation"""
    spec = sc.spec
    pre_incomplete = sc.dst.exists() and (sc.dst / MARKERS[0]).exists() and not (sc.dst / MARKERS[1]).exists()
    fin = run_attempt(spec, sc.gpath, sc.lpath)
    if fin["status"] == "killed":
        raise Violation("harness:final-call-killed", "")
    if fin["status"] == "raised":
        # the statement is conditional on a normal return
        return "final-call-raised:" + fin["error"][:60]
    res = fin["result"]
    if spec.get("bad_zip") and spec["pre"] not in ("user", "user_empty") and res.get("was_copied"):
        # a normal return says "the local folder holds a complete copy": with a damaged archive in the source there is no complete copy
        raise Violation("damaged-archive-silently-skipped", f"the source holds a damaged archive, yet the call returned normally with {res}")
    got = read_tree(sc.dst)
    dst_rel = os.path.relpath(os.path.realpath(str(sc.dst)), os.path.realpath(str(sc.lroot)))

    def in_dst(rel):
        return rel == dst_rel or rel.startswith(dst_rel + os.sep)
    wrote = any(e in ("open-w", "data", "os.mkdir", "shutil.copyfile", "os.rename") for e, _ in fin["events"])
    removed = any(e in REMOVALS and in_dst(rel) for e, rel in fin["events"])
    if sc.user_tree is not None:
        if got != sc.user_tree:
            raise Violation("user-provided-folder-modified", f"{sorted(got or {})} vs {sorted(sc.user_tree)}")
        if res["was_copied"] or res["was_deleted"] or any(in_dst(rel) for _, rel in fin["events"]):
            raise Violation("user-provided-folder-not-left-alone", f"result {res}, events {fin['events'][:6]}")
    else:
        if got is None:
            raise Violation("local-folder-missing-after-normal-return", str(res))
        data = {p: b for p, b in got.items() if p not in MARKERS}
        exp = expected_tree(spec)
        if data != exp:
            missing = sorted(set(exp) - set(data))
            extra = sorted(set(data) - set(exp))
            diff = sorted(p for p in set(exp) & set(data) if exp[p] != data[p])
            how = "reported-as-usable" if not res["was_copied"] else "after-copy"
            raise Violation(f"incomplete-copy-{how}", f"normal return {res} but local copy differs: missing {missing[:4]} extra {extra[:4]} "
                                                      f"different {diff[:4]}")
        if not all(m in got for m in MARKERS):
            raise Violation("markers-missing-after-completed-copy", str(sorted(got)))
        if res["was_copied"] != wrote:
            raise Violation("result-untruthful:was_copied", f"was_copied={res['was_copied']} but write events={wrote}")
        # was_deleted <=> an incomplete automatic copy was found (and discarded); an unreported removal inside dst is untruthful
        if res["was_deleted"] != pre_incomplete:
            raise Violation("result-untruthful:was_deleted", f"was_deleted={res['was_deleted']} but an incomplete copy was "
                                                             f"{'present' if pre_incomplete else 'absent'} before the call")
        if removed and not res["was_deleted"]:
            raise Violation("result-untruthful:unreported-removal", f"removal events inside the local folder but was_deleted=False")
        if res["was_copied"]:
            if spec["fn"] == "folder" and res.get("source_format") != spec["fmt"]:
                raise Violation("result-untruthful:source_format", f"{res.get('source_format')} vs {spec['fmt']}")
            if spec["fn"] == "imagefolder" and (res.get("was_zip"), res.get("was_zip_classwise")) != (spec["fmt"] == "zip", spec["fmt"] == "zips"):
                raise Violation("result-untruthful:was_zip", str(res))
    # idempotence: a completed copy is never deleted or redone
    before = {p: os.stat(os.path.join(dp, p)).st_ino for dp, _, fn in os.walk(sc.dst) for p in fn} if sc.dst.exists() else {}
    again = run_attempt(spec, sc.gpath, sc.lpath)
    if again["status"] != "ok":
        raise Violation("second-call-fails", str(again)[:200])
    if again["events"]:
        raise Violation("completed-copy-redone-or-deleted", f"second call performed {again['events'][:6]}")
    r2 = again["result"]
    if r2["was_copied"] or r2["was_deleted"]:
        raise Violation("second-call-reports-work", str(r2))
    after = {p: os.stat(os.path.join(dp, p)).st_ino for dp, _, fn in os.walk(sc.dst) for p in fn} if sc.dst.exists() else {}
    if before != after:
        raise Violation("completed-copy-redone-or-deleted", "inodes changed")
    return None


def _window(events):
    """classify where the child died: the last events before the kill"""
    names = [e for e, _ in events]
    ev = [e for e in names if not e.endswith("!")]
    nxt = next((e[:-1] for e in names if e.endswith("!")), "?")
    prev = ev[-1] if ev else "start"
    return f"after:{prev}|before:{nxt}"


def check(spec):
    sc = Scenario(spec)
    try:
        inside = 0
        windows = []
        for frac in spec["crashes"]:
            n_ops, dry = sc.count_ops()
            if n_ops == 0:
                continue
            k = frac if isinstance(frac, int) else min(n_ops - 1, int(frac * n_ops))
            if k >= n_ops:
                continue
            out = run_attempt(spec, sc.gpath, sc.lpath, kill_at=k)
            if out["status"] == "killed":
                if 0 < k < n_ops - 1:
                    inside += 1
                windows.append(_window(out["events"]))
        try:
            anomaly = judge(sc, inside)
        except Violation as v:
            if windows and not v.signature.startswith("harness"):
                v.signature = v.signature + ":" + windows[-1] if len(windows) == 1 else v.signature + ":multi"
                v.message = v.message + f" [crash windows {windows}]"
                v.args = (f"{v.signature}: {v.message}",)
            raise
        labels = [spec["fmt"], spec["fn"], spec["pre"], "crashes=%d" % len(windows)] + ([anomaly[:40]] if anomaly else [])
        return Case(inside > 0, labels, 2 + len(spec["crashes"]))
    finally:
        sc.close()


# ------------------------------------------------------------------------------------------ strategies / enumeration
NAMES = ["a", "b", "cls0", "cls1", "x1", "v1.0", "dog.husky", "dog.beagle", "take..2"]  # class folders may carry dots (also two in a row)
FILES = ["f.bin", "g.dat", "img_0", "z", "notes", "s_1..wav"]


@st.composite
def tree_s(draw):
    # a quarter of the trees hold top-level files whose names merely look like archives to a careless test (upper / mixed case
    # suffix): for the library they are plain files, a folder dominated by them is a plain folder
    odd = draw(st.sampled_from([0, 0, 0, 0, 0, 1, 2]))
    n = draw(st.integers(0, 7 if odd == 0 else 2))
    out, seen = [], set()
    for name in ["B.ZIP", "x.Zip"][:odd]:
        seen.add(name)
        out.append([name, draw(st.integers(0, 99)), draw(st.sampled_from([0, 7, 300]))])
    for _ in range(n):
        depth = draw(st.integers(0, 2))
        parts = [draw(st.sampled_from(NAMES)) for _ in range(depth)] + [draw(st.sampled_from(FILES))]
        p = "/".join(parts)
        # a path may not be both a file and a directory
        if p in seen or any(q.startswith(p + "/") or p.startswith(q + "/") for q in seen):
            continue
        seen.add(p)
        out.append([p, draw(st.integers(0, 99)), draw(st.sampled_from([0, 1, 7, 300]))])
    return out


# the four categorical dimensions are drawn as ONE choice from their full product: within the short per-shard runs Hypothesis tends to
# produce clusters of similar examples, and independent draws left whole combinations (say: folder of zips x plain copy function x a
# relative path with brackets) almost unvisited - a single draw over the product visits every combination evenly
_COMBOS = [(f, fn, rel, pre) for f in ("raw", "zip", "zips") for fn in ("folder", "imagefolder")
           for rel in (None, "sub", "sub/deep", "set[1]/d", "a [v1-3]") for pre in ("absent", "absent", "parent", "user", "user_empty")]


@st.composite
def scenario_s(draw, max_crashes=3):
    fmt, fn_, rel_, pre_ = draw(st.sampled_from(_COMBOS))
    return {"fmt": fmt, "tree": draw(tree_s()), "relative": rel_,
            "pre": pre_, "fn": fn_,
            "readme": draw(st.sampled_from([0, 1, 2, 2])), "workers": draw(st.sampled_from([0, 1])),
            "path_form": draw(st.sampled_from(["path", "str", "rel_path", "symlink", "relcwd", "tilde"])), "link": draw(st.integers(0, 3)) == 0, "zip_link": fmt == "zips" and draw(st.integers(0, 2)) == 0, "decoy_zip": draw(st.integers(0, 3)) == 0, "bad_zip": draw(st.sampled_from([0, 0, 0, 0, 1, 2])) if fmt == "zips" else 0, "call": draw(st.sampled_from(["keyword", "keyword", "positional"])),
            "crashes": draw(st.lists(st.floats(0, 0.999).map(lambda f: round(f, 3)), min_size=min(max_crashes, draw(st.sampled_from([0, 1, 1, 1]))),
                                    max_size=max_crashes))}


def _many_zips(t):
    """multi-worker extraction, sometimes over datasets with more top-level folders (= zips) than any task-grouping constant"""
    s, many, workers = t
    tree = list(s["tree"]) + [[f"m{k:02d}/f.bin", k, 1] for k in range(many)]
    return dict(s, workers=workers, tree=tree)


FIXED_TREE = [["cls0/f.bin", 1, 7], ["cls0/a/g.dat", 2, 0], ["cls1/img_0", 3, 300], ["notes", 4, 1]]


def _fixed_scenarios():
    for fn in ("folder", "imagefolder"):
        for fmt in ("raw", "zip", "zips"):
            for pre, rel in (("absent", None), ("parent", "sub/deep")):
                yield {"fmt": fmt, "tree": FIXED_TREE, "relative": rel, "pre": pre, "fn": fn, "readme": 1, "workers": 0}


def enumerate_singles(tier):
    for s in _fixed_scenarios():
        sc = Scenario(s)
        try:
            n_ops, _ = sc.count_ops()
        finally:
            sc.close()
        for k in range(n_ops):
            yield dict(s, crashes=[k])


def enumerate_pairs(tier):
    """every first crash point x every crash point of the retry (measured after the first crash)"""
    for s in list(_fixed_scenarios())[::2 if tier == "quick" else 1]:
        sc = Scenario(s)
        try:
            n_ops, _ = sc.count_ops()
        finally:
            sc.close()
        step1 = 3 if tier == "quick" else 1
        for k1 in range(0, n_ops, step1):
            sc = Scenario(s)
            try:
                run_attempt(s, sc.gpath, sc.lpath, kill_at=k1)
                n2, _ = sc.count_ops()
            finally:
                sc.close()
            for k2 in range(0, n2, 2 if tier == "quick" else 1):
                yield dict(s, crashes=[k1, k2])


FACETS = [
    Facet("random-crash-sequences", check, strategy=lambda tier: scenario_s(), budget={"quick": 800, "thorough": 5000},
          shards={"quick": 10, "thorough": 16}, min_nontrivial={"quick": 80, "thorough": 1000}, case_timeout=300),
    Facet("no-crash-multi-worker", check, strategy=lambda tier: st.tuples(scenario_s(max_crashes=0), st.sampled_from([0, 0, 33, 45, 50, 65]),
                                                                          st.sampled_from([2, 2, 3])).map(_many_zips),
          budget={"quick": 24, "thorough": 200}, shards={"quick": 4, "thorough": 8}, min_nontrivial={"quick": 0, "thorough": 0},
          case_timeout=300),
    Facet("all-single-crash-points", check, enumerate=enumerate_singles, exhaustive=True, shards={"quick": 12, "thorough": 16},
          min_nontrivial={"quick": 100, "thorough": 100}, case_timeout=300),
    Facet("all-crash-point-pairs", check, enumerate=enumerate_pairs, exhaustive=True, shards={"quick": 12, "thorough": 16},
          min_nontrivial={"quick": 100, "thorough": 500}, case_timeout=300, tiers=("thorough",)),
]
