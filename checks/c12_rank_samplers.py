"""C12 - rank-aware samplers split one global epoch draw evenly and reproducibly."""
import os
from collections import Counter

import numpy as np
import torch
from hypothesis import strategies as st

from checks.c03_dataset_wrappers import ClassRoot
from vlib.core import Case, Facet, Refused, Violation, guarded

# thorough-tier budgets of every facet are multiplied by this factor (sized for ~5-8 min on 16 cores)
THOROUGH_SCALE = 8
LEVEL = "exploration"
RULE = ("spec = sampler kind (DistributedSampler shuffle/drop_last/num_repeats 1-4, ClassBalancedSampler, WeightedSampler, "
        "RandomSampler(num_repeats)) x dataset size 1-40 (half of them <= 6, incl. < world size) x world size 1-16 x seed x two epochs "
        "x launcher environment (RANK/WORLD_SIZE unset or set, no process group); oracle "
        "(structural): all per-rank streams have len(sampler) entries, their interleaving G is the W=1 draw of the same (seed, "
        "epoch) cut at the end or wrapped around cyclically - only trailing entries differ; equal (seed, epoch) reproduces G, "
        "set_epoch changes it whenever the draw space is large; with num_repeats=r the draw consists of runs of r equal indices "
        "with pairwise different values; non-trivial = W>=3, or N<W, or num_repeats>1, or N%W!=0; distinct = distinct spec hash")
ASSUMPTIONS = ["'set_epoch changes the draw' is checked only for shuffled draws over >= 8 elements (P[two random permutations "
               "coincide] <= 1/40320 per case would still be a false alarm: the check therefore compares three epochs and reports "
               "only if all three coincide, P < 1e-9)"]


WORK = os.path.join(os.path.dirname(os.path.dirname(os.path.abspath(__file__))), ".work")


class PlainDS(torch.utils.data.Dataset):
    def __init__(self, n):
        self.n = n

    def __len__(self):
        return self.n

    def __getitem__(self, i):
        return i


def _other_epochs(spec):
    """the two following epochs and - for a negative seed - the later epoch whose sum with the seed has the opposite sign"""
    e, sd = spec["epoch"], spec["seed"]
    out = [e + 1, e + 2]
    if sd < 0 and -2 * sd - e > e and -2 * sd - e not in out:
        out.append(-2 * sd - e)
    return out


def _streams(make, W, epoch, via=None):
    out = []
    for r in range(W):
        s = make(r, W)
        if hasattr(s, "set_epoch"):
            if via is not None:
                s.set_epoch(via)  # another epoch first: going back must reproduce the draw of `epoch`
            s.set_epoch(epoch)
        st_ = list(s)
        if len(st_) != len(s):
            raise Violation("stream-length!=len(sampler)", f"rank {r}/{W}: {len(st_)} entries, len() says {len(s)}")
        # the draw is a function of (seed, epoch): iterating the same object again without set_epoch reproduces it
        if list(s) != st_:
            raise Violation("re-iteration-with-equal-seed-epoch-differs", f"rank {r}/{W}: second pass over the same sampler object differs")
        # ... and so do two passes that are alive at the same time (zip(s, s), a prefetching consumer next to a logging one)
        a, b = iter(s), iter(s)
        two = [[], []]
        for k in range(2 * len(st_) + 2):
            try:
                two[k % 2].append(next(a if k % 2 == 0 else b))
            except StopIteration:
                pass
        if two[0] != st_ or two[1] != st_:
            raise Violation("two-live-iterators-over-one-sampler-disturb-each-other", f"rank {r}/{W}: alternating next() on two iterators gives "
                                                                                      f"{two[0][:8]} / {two[1][:8]}, one alone {st_[:8]}")
        out.append(st_)
    if len({len(x) for x in out}) != 1:
        raise Violation("ranks-have-different-lengths", str([len(x) for x in out]))
    L = len(out[0])
    return [out[k % W][k // W] for k in range(L * W)], L


def _runs(seq, r, name):
    vals = []
    k = 0
    while k < len(seq):
        run = seq[k:k + r]
        if len(set(run)) != 1:
            raise Violation(f"repeats-not-consecutive:{name}", f"num_repeats={r}: {seq[:4 * r]}")
        vals.append(run[0])
        k += r
    if len(set(vals)) != len(vals):
        raise Violation(f"repeated-sample-drawn-twice:{name}", f"{seq}")


def check_distributed(spec):
    from kappadata.samplers import DistributedSampler
    N, W, seed, r = spec["N"], spec["W"], spec["seed"], spec["repeats"]
    shuffle, drop_last = spec["shuffle"], spec["drop_last"]
    ds = PlainDS(N)

    def make(rank, world):
        if spec.get("call") == "positional":
            # torch's documented order: dataset, num_replicas, rank, shuffle, seed, drop_last
            return DistributedSampler(ds, world, rank, shuffle, seed, drop_last, num_repeats=r)
        return DistributedSampler(ds, num_replicas=world, rank=rank, shuffle=shuffle, seed=seed, drop_last=drop_last, num_repeats=r)
    try:
        G, L = _streams(make, W, spec["epoch"])
    except AssertionError:
        if r > 1 and not shuffle:
            raise Refused("num_repeats>1 requires shuffle")
        raise
    except NameError as e:
        raise Violation("raises:NameError", repr(e))
    D, _ = _streams(make, 1, spec["epoch"])
    if len(D) != N or any(not 0 <= i < N for i in D):
        raise Violation("w1-draw-invalid", str(D))
    m = min(N, len(G))
    if G[:m] != D[:m]:
        raise Violation("ranks-do-not-interleave-into-the-global-draw", f"N={N} W={W} repeats={r} drop_last={drop_last}: G={G} D={D}")
    if len(G) > N:
        if drop_last:
            raise Violation("drop_last-pads", f"{len(G)} > {N}")
        tail = (D * (len(G) // N + 1))[:len(G) - N]
        if G[N:] != tail:
            raise Violation("padding-is-not-a-wrap-around", f"G={G} D={D}")
    else:
        # trailing entries dropped: fewer than W (drop_last) - or none
        if N - len(G) >= W and N >= W:
            raise Violation("too-many-entries-dropped", f"N={N} W={W}: {len(G)} kept")
    G2, _ = _streams(make, W, spec["epoch"])
    if G2 != G:
        raise Violation("same-seed-epoch-not-reproducible", "")
    G3, _ = _streams(make, W, spec["epoch"], via=spec["epoch"] + 1 + spec["seed"] % 3)
    if G3 != G:
        raise Violation("set_epoch-back-does-not-reproduce", f"set_epoch({spec['epoch']}) after another epoch gives a different draw")
    if shuffle and len(set(G)) >= 8:  # judged on what the ranks emit together (with N < W and drop_last that is nothing at all)
        others = [_streams(make, W, e_)[0] for e_ in _other_epochs(spec)]
        if all(o == G for o in others) or (len(set(G)) >= 12 and any(o == G for o in others)):
            raise Violation("set_epoch-does-not-change-the-draw", f"epochs {[spec['epoch']] + _other_epochs(spec)} give {G}")
    if r > 1:
        _runs(D, r, "distributed")
    elif shuffle or True:
        if sorted(D) != list(range(N)):
            raise Violation("w1-draw-not-a-permutation", str(D))
    nt = W >= 3 or N < W or r > 1 or N % W != 0
    return Case(nt, ["W=%d" % W, "repeats" if r > 1 else "plain", "drop_last" if drop_last else "pad", "N<W" if N < W else "N>=W"], W + 3)


def with_env(fn):
    """the streams are a function of the arguments (seed, epoch, rank, world size): launcher variables such as RANK / WORLD_SIZE
    (set by torchrun before any process group exists) must not leak into samplers that were given their rank explicitly"""
    import os

    def run(spec):
        env = spec.get("env")
        if not env:
            return fn(spec)
        keep = {k: os.environ.get(k) for k in ("RANK", "WORLD_SIZE", "LOCAL_RANK")}
        os.environ.update({"RANK": str(env[0]), "WORLD_SIZE": str(env[1]), "LOCAL_RANK": str(env[0])})
        try:
            return fn(spec)
        finally:
            for k, v in keep.items():
                if v is None:
                    os.environ.pop(k, None)
                else:
                    os.environ[k] = v
    return run


def _rank_kwargs(spec, rank, world):
    """how rank and world size reach the sampler: python ints, numpy integers (an element of np.arange(world)), or only the one that
    differs from its default (rank 0 / world size 1 are what an omitted argument resolves to outside a process group)"""
    form = spec.get("rw_form") or "int"
    if form == "numpy":
        return {"rank": np.int64(rank), "world_size": np.int64(world)}
    if form == "omit":
        kw = {}
        if rank != 0:
            kw["rank"] = rank
        if world != 1:
            kw["world_size"] = world
        return kw
    return {"rank": rank, "world_size": world}


def _class_layout(n_per_class, key):
    cl = [c for c, k in enumerate(n_per_class) for _ in range(k)]
    rng = np.random.default_rng(key)
    rng.shuffle(cl)
    return [int(c) for c in cl]


def check_prefix_kind(spec):
    """class-balanced and weighted: G equals the prefix of the W=1 stream"""
    from kappadata.samplers import ClassBalancedSampler, WeightedSampler
    kind, W, seed = spec["kind"], spec["W"], spec["seed"]
    if kind == "balanced":
        cl = _class_layout(spec["counts"], spec["key"])
        ds = ClassRoot(cl, len(spec["counts"]), spec["bulk"])

        def make(rank, world):
            kw = _rank_kwargs(spec, rank, world)
            if spec.get("call") == "positional" and len(kw) == 2:
                # documented order: dataset, shuffle, samples_per_class, getall_item, seed, rank, world_size
                return ClassBalancedSampler(ds, spec["shuffle"], spec["spc"], "class", seed, kw["rank"], kw["world_size"])
            return ClassBalancedSampler(ds, shuffle=spec["shuffle"], samples_per_class=spec["spc"], seed=seed, **kw)
        n = len(cl)
    else:
        n = spec["n"]
        rng = np.random.default_rng(spec["key"])
        wts = torch.tensor(rng.random(n), dtype=torch.float32)
        zero = rng.random(n) < 0.3
        wts[torch.from_numpy(zero)] = 0
        nz = int((wts > 0).sum())
        size = spec["size"]
        if nz == 0:
            raise Refused("all weights zero")
        if size is None:
            if nz < n:
                size = nz
        size = None if size is None else max(1, min(size, nz))
        ds = PlainDS(n)

        def make(rank, world):
            kw = _rank_kwargs(spec, rank, world)
            if spec.get("call") == "positional" and len(kw) == 2:
                # documented order: dataset, weights, size, seed, rank, world_size
                return WeightedSampler(ds, wts, size, seed, kw["rank"], kw["world_size"])
            return WeightedSampler(ds, weights=wts, size=size, seed=seed, **kw)
    try:
        G, L = _streams(make, W, spec["epoch"])
    except AssertionError:
        raise Refused("constructor assertion")
    D, _ = _streams(make, 1, spec["epoch"])
    if G != D[:len(G)]:
        raise Violation(f"ranks-do-not-interleave-into-the-global-draw:{kind}", f"W={W}: G={G} D={D}")
    if len(D) - len(G) >= W:
        raise Violation(f"too-many-entries-dropped:{kind}", f"{len(D)} -> {len(G)} for W={W}")
    if any(not 0 <= i < n for i in D):
        raise Violation(f"index-out-of-range:{kind}", str(D))
    G2, _ = _streams(make, W, spec["epoch"])
    if G2 != G:
        raise Violation(f"same-seed-epoch-not-reproducible:{kind}", "")
    G3, _ = _streams(make, W, spec["epoch"], via=spec["epoch"] + 1 + spec["seed"] % 3)
    if G3 != G:
        raise Violation(f"set_epoch-back-does-not-reproduce:{kind}", f"set_epoch({spec['epoch']}) after another epoch gives a different draw")
    if (kind == "weighted" or spec["shuffle"]) and len(set(G)) >= 8:
        others = [_streams(make, W, e_)[0] for e_ in _other_epochs(spec)]
        # P[two honest shuffles of >= 12 distinct elements coincide] <= 1/12! ~ 2e-9: the pairwise test is safe there
        if all(o == G for o in others) or (len(set(G)) >= 12 and any(o == G for o in others)):
            raise Violation(f"set_epoch-does-not-change-the-draw:{kind}", f"epoch {spec['epoch']} and one of {_other_epochs(spec)}")
    return Case(W >= 3 or len(D) % W != 0 or len(D) < W, [kind, "W=%d" % W], W + 3)


def check_random_sampler(spec):
    from kappadata.samplers import RandomSampler
    N, r = spec["N"], spec["repeats"]
    repl = bool(spec.get("replacement"))
    s = RandomSampler(PlainDS(N), replacement=repl, num_repeats=r, generator=torch.Generator().manual_seed(spec["seed"]))
    seq = list(s)
    if len(seq) != len(s) or len(seq) != N:
        raise Violation("stream-length!=len(sampler):random", f"{len(seq)} vs {len(s)}")
    if any(not 0 <= i < N for i in seq):
        raise Violation("index-out-of-range:random", "")
    if r > 1 and repl:
        # drawn with replacement: every draw still occupies num_repeats consecutive slots (values may recur in later runs)
        for k in range(0, len(seq), r):
            if len(set(seq[k:k + r])) != 1:
                raise Violation("repeats-not-consecutive:random:replacement", f"num_repeats={r}: {seq[:4 * r]}")
    elif r > 1:
        _runs(seq, r, "random")
    elif not repl and sorted(seq) != list(range(N)):
        raise Violation("random-sampler-not-a-permutation", "")
    s2 = RandomSampler(PlainDS(N), replacement=repl, num_repeats=r, generator=torch.Generator().manual_seed(spec["seed"]))
    if list(s2) != seq:
        raise Violation("same-seed-not-reproducible:random", "")
    return Case(r > 1, ["repeats=%d" % r], 2)


ENV = st.sampled_from([None, None, [1, 2], [3, 4], [5, 8]])
RW = st.sampled_from(["int", "int", "numpy", "omit"])
CALL = st.sampled_from(["keyword", "keyword", "positional"])
WORLD = st.sampled_from([1, 2, 3, 3, 4, 5, 6, 7, 8, 11, 16])
# half of the datasets are tiny: fewer samples than ranks, padding longer than the draw itself
SIZE = st.one_of(st.integers(1, 6), st.integers(1, 40))
# sampler seeds: the usual small ones and values around the 31/32-bit boundaries and beyond (the generators take 64-bit seeds)
SEEDS = st.one_of(st.integers(0, 2 ** 20), st.sampled_from([2 ** 31 - 1, 2 ** 31, 2 ** 32 - 1, 2 ** 32 + 5, 2 ** 40 + 3]),
                  st.integers(-60, -1))  # torch generators take negative seeds too
# ------------------------------------------------------------------ real process groups (default rank / world size)
def _group_member(rank, W, store, spec, conn):
    """body of one forked rank: joins a gloo group through a file store and builds its sampler WITHOUT rank / world size"""
    import datetime
    import pickle
    import torch.distributed as dist
    try:
        if spec["before"] in ("query", "both"):
            # a dry run before the group exists (a single-process smoke test, a config printout) asks for the rank already
            from kappadata.utils.distributed import get_rank, get_world_size
            get_rank(), get_world_size()
        if spec["before"] in ("build", "both") and spec["kind"] != "distributed":
            # (torch's DistributedSampler refuses to be built without a group; the other samplers fall back to rank 0 of 1)
            list(_default_sampler(spec))
        dist.init_process_group("gloo", init_method=f"file://{store}", rank=rank, world_size=W, timeout=datetime.timedelta(seconds=60))
        s = _default_sampler(spec)
        if hasattr(s, "set_epoch"):
            s.set_epoch(spec["epoch"])
        out = [int(i) for i in s]
        first = (out, len(s))
        dist.barrier()
        dist.destroy_process_group()
        second = None
        if spec.get("regroup"):
            # the process leaves its group and joins another one with the ranks reversed (a second stage of a job, an elastic restart)
            r2 = W - 1 - rank
            dist.init_process_group("gloo", init_method=f"file://{store}.2", rank=r2, world_size=W, timeout=datetime.timedelta(seconds=60))
            s = _default_sampler(spec)
            if hasattr(s, "set_epoch"):
                s.set_epoch(spec["epoch"])
            second = ([int(i) for i in s], len(s))
            dist.barrier()
            dist.destroy_process_group()
        conn.send(("ok", pickle.dumps((first, second))))
    except BaseException as e:  # pragma: no cover
        try:
            conn.send(("err", repr(e)[:300]))
        except Exception:
            pass
    finally:
        conn.close()
        os._exit(0)


def _group_dataset(spec):
    if spec["kind"] in ("balanced", "semi"):
        cl = _class_layout(spec["counts"], spec["key"])
        if spec["kind"] == "semi":
            cl = [(-1 if k % 3 == 0 else c) for k, c in enumerate(cl)]
            if all(c == -1 for c in cl) or all(c != -1 for c in cl):
                cl = [0, -1] + cl
        return ClassRoot(cl, len(spec["counts"]), "list")
    return PlainDS(spec["n"])


def _default_sampler(spec, rank=None, world=None):
    """rank / world = None: not passed at all (resolved from the process group)"""
    from kappadata.samplers import ClassBalancedSampler, DistributedSampler, SemiSampler, WeightedSampler
    kind, seed = spec["kind"], spec["seed"]
    ds = _group_dataset(spec)
    if kind == "distributed":
        kw = {} if rank is None else {"num_replicas": world, "rank": rank}
        return DistributedSampler(ds, shuffle=True, seed=seed, num_repeats=spec["repeats"], **kw)
    kw = {} if rank is None else {"rank": rank, "world_size": world}
    if kind == "balanced":
        return ClassBalancedSampler(ds, shuffle=True, seed=seed, **kw)
    if kind == "semi":
        return SemiSampler(ds, num_labeled=1, num_unlabeled=2, seed=seed, **kw)
    wts = torch.tensor(np.random.default_rng(spec["key"]).random(spec["n"]) + 0.05, dtype=torch.float32)
    return WeightedSampler(ds, weights=wts, seed=seed, **kw)


def check_process_group(spec):
    """inside a real torch.distributed group a sampler built without rank / world size is the sampler of that process' rank"""
    import multiprocessing as mp
    import pickle
    import tempfile
    W = spec["W"]
    os.makedirs(WORK, exist_ok=True)
    fd, store = tempfile.mkstemp(prefix="c12_store_", dir=WORK)
    os.close(fd)
    os.remove(store)
    ctx = mp.get_context("fork")
    procs, conns = [], []
    try:
        for r in range(W):
            pc, cc = ctx.Pipe(duplex=False)
            p = ctx.Process(target=_group_member, args=(r, W, store, spec, cc))
            p.start()
            cc.close()
            procs.append(p)
            conns.append(pc)
        got = []
        for r, c in enumerate(conns):
            if not c.poll(90):
                raise Refused("process group did not come up within 90 s")
            status, payload = c.recv()
            if status != "ok":
                if "AssertionError" in payload and spec["kind"] == "distributed":
                    raise Refused("constructor assertion")
                raise Violation(f"default-rank-sampler-raises-inside-a-process-group:{spec['kind']}", payload)
            got.append(pickle.loads(payload))
    finally:
        for p in procs:
            p.join(20)
            if p.is_alive():
                p.kill()
                p.join(5)
        for f_ in (store, store + ".2"):
            try:
                os.remove(f_)
            except OSError:
                pass
    phases = [(r, r, first, "") for r, (first, _) in enumerate(got)]
    phases += [(r, W - 1 - r, second, " in its second group") for r, (_, second) in enumerate(got) if second is not None]
    for proc, r, (stream, length), where in phases:
        ref = _default_sampler(spec, rank=r, world=W)
        if hasattr(ref, "set_epoch"):
            ref.set_epoch(spec["epoch"])
        exp = [int(i) for i in ref]
        if length != len(ref) or stream != exp:
            raise Violation(f"default-rank-differs-from-explicit-rank:{spec['kind']}{':regrouped' if where else ''}",
                            f"process {proc}{where} is rank {r} of {W} (before init: {spec['before']}): sampler built without rank/world size yields {len(stream)} entries "
                            f"(len {length}) {stream[:8]}, the explicit (rank={r}, world_size={W}) sampler {len(exp)} entries {exp[:8]}")
    return Case(True, [spec["kind"], "W=%d" % W, "before:" + spec["before"]], W)


GROUP = st.fixed_dictionaries({"kind": st.sampled_from(["distributed", "balanced", "weighted", "semi"]), "W": st.sampled_from([2, 2, 3]),
                               "n": st.integers(4, 24), "counts": st.lists(st.integers(1, 5), min_size=2, max_size=4),
                               "key": st.integers(0, 99), "seed": st.integers(0, 2 ** 20), "epoch": st.sampled_from([0, 1, 7]),
                               "repeats": st.sampled_from([1, 1, 2]), "before": st.sampled_from(["nothing", "query", "build", "both"]),
                               "regroup": st.booleans()})
DIST = st.fixed_dictionaries({"N": SIZE, "W": WORLD, "env": ENV, "call": CALL, "seed": SEEDS, "epoch": st.sampled_from([0, 0, 1, 2, 7, 50]),
                              "repeats": st.sampled_from([1, 1, 2, 3, 4]), "shuffle": st.sampled_from([True, True, False]),
                              "drop_last": st.booleans()})
BAL = st.fixed_dictionaries({"kind": st.just("balanced"), "counts": st.lists(st.integers(1, 7), min_size=2, max_size=6),
                             "key": st.integers(0, 999), "bulk": st.sampled_from(["list", "numpy", "tensor", "numpy:uint8", "numpy:int16", "tensor:int8", "tensor:int32"]),
                             "spc": st.one_of(st.none(), st.integers(1, 20)), "shuffle": st.booleans(), "W": WORLD, "env": ENV, "rw_form": RW, "call": CALL,
                             "seed": SEEDS, "epoch": st.sampled_from([0, 0, 1, 2, 7, 50])})
WEI = st.fixed_dictionaries({"kind": st.just("weighted"), "n": SIZE, "key": st.integers(0, 999), "env": ENV, "rw_form": RW, "call": CALL,
                             "size": st.one_of(st.none(), st.integers(1, 40)), "W": WORLD, "seed": SEEDS,
                             "epoch": st.sampled_from([0, 0, 1, 2, 7, 50])})
RAND = st.fixed_dictionaries({"N": st.integers(1, 40), "repeats": st.integers(1, 4), "seed": SEEDS, "replacement": st.booleans()})

FACETS = [
    Facet("distributed", guarded("distributed", with_env(check_distributed)), strategy=lambda tier: DIST, budget={"quick": 2500, "thorough": 40000},
          shards={"quick": 4, "thorough": 12}, min_nontrivial={"quick": 500, "thorough": 5000}),
    Facet("class-balanced", guarded("class-balanced", with_env(check_prefix_kind)), strategy=lambda tier: BAL, budget={"quick": 1000, "thorough": 12000},
          shards={"quick": 2, "thorough": 6}, min_nontrivial={"quick": 200, "thorough": 2000}),
    Facet("weighted", guarded("weighted", with_env(check_prefix_kind)), strategy=lambda tier: WEI, budget={"quick": 1000, "thorough": 12000},
          shards={"quick": 2, "thorough": 6}, min_nontrivial={"quick": 200, "thorough": 2000}),
    Facet("process-group", check_process_group, strategy=lambda tier: GROUP, budget={"quick": 128, "thorough": 300},
          shards={"quick": 8, "thorough": 12}, min_nontrivial={"quick": 20, "thorough": 100}, case_timeout=300),
    Facet("random-sampler-repeats", check_random_sampler, strategy=lambda tier: RAND, budget={"quick": 400, "thorough": 4000},
          shards={"quick": 1, "thorough": 2}, min_nontrivial={"quick": 100, "thorough": 1000}),
]
