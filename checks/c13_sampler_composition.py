"""C13 - balanced, semi-supervised and weighted samplers compose epochs as promised."""
from collections import Counter

import itertools

import numpy as np
import torch
from hypothesis import strategies as st

from checks.c03_dataset_wrappers import ClassRoot
from checks.c12_rank_samplers import PlainDS, _class_layout
from vlib.core import Case, Facet, Refused, Violation

# thorough-tier budgets of every facet are multiplied by this factor (sized for ~5-8 min on 16 cores)
THOROUGH_SCALE = 8
LEVEL = "exploration"
RULE = ("class-balanced: class layouts with every class present, samples_per_class None or 1..3*max, shuffle, W 1-4 -> over all "
        "ranks together exactly samples_per_class indices per class (minus the effective_length%W trailing entries), per-class "
        "reuse differs by <=1; semi: labeled/unlabeled splits (>=1 each), num_labeled/num_unlabeled 1-4, three length modes, W 1-4 "
        "-> position t labeled iff t mod (L+U) < L, every consecutive block of |pool| draws from a pool is a permutation of the "
        "pool, equal per-rank lengths effective_length//W, different streams per rank, documented effective_length; weighted: "
        "weights incl. zeros -> no index twice per epoch, zero-weight indices never drawn, length size or N (//W); all indices "
        "valid; non-trivial = samples_per_class not a multiple of a class size, or a pool exhausted at least once, or W>=2; "
        "distinct = distinct spec hash")
ASSUMPTIONS = ["ClassBalancedSampler asserts that every class occurs (generator respects it)",
               "'different streams per rank' is checked only for streams of >= 8 entries over pools >= 4 (P[coincidence] < 1e-4), and "
               "reported only if three different seeds all coincide"]


def _two_live(s, alone, name):
    """two passes over one sampler object that are alive at the same time (zip(s, s), a prefetching consumer next to a logging one)
    each yield the epoch the sampler yields alone"""
    a, b = iter(s), iter(s)
    two = [[], []]
    for k in range(2 * len(alone) + 2):
        try:
            two[k % 2].append(next(a if k % 2 == 0 else b))
        except StopIteration:
            pass
    if two[0] != alone or two[1] != alone:
        raise Violation(f"{name}:two-live-iterators-disturb-each-other", f"alternating next() on two iterators gives {two[0][:10]} / {two[1][:10]}, "
                                                                         f"one alone {alone[:10]}")


def check_balanced(spec):
    from kappadata.samplers import ClassBalancedSampler
    counts = spec["counts"]
    cl = _class_layout(counts, spec["key"])
    C = len(counts)
    ds = ClassRoot(cl, C, spec["bulk"])
    W = spec["W"]
    spc = spec["spc"]
    streams = []
    for r in range(W):
        if spec.get("late_spc") and spc is not None:
            # an epoch-lengthening schedule: the sampler is built with a smaller samples_per_class, the public attribute is raised later
            s = ClassBalancedSampler(ds, shuffle=spec["shuffle"], samples_per_class=max(1, spc // 2), seed=spec["seed"], rank=r, world_size=W)
            s.samples_per_class = spc
        elif spec.get("call") == "positional":
            # documented order: dataset, shuffle, samples_per_class, getall_item, seed, rank, world_size
            s = ClassBalancedSampler(ds, spec["shuffle"], spc, "class", spec["seed"], r, W)
        else:
            s = ClassBalancedSampler(ds, shuffle=spec["shuffle"], samples_per_class=spc, seed=spec["seed"], rank=r, world_size=W)
        s.set_epoch(spec["epoch"])
        st_ = list(s)
        _two_live(s, st_, "balanced")
        if len(st_) != len(s):
            raise Violation("balanced:stream-length!=len", f"{len(st_)} vs {len(s)}")
        streams.append(st_)
    eff = s.effective_length
    k = spc or max(counts)
    if eff != C * k:
        raise Violation("balanced:effective-length", f"{eff} vs {C}*{k}")
    if len(streams[0]) != eff // W:
        raise Violation("balanced:per-rank-length", f"{len(streams[0])} vs {eff}//{W}")
    allidx = [i for st_ in streams for i in st_]
    if any(not 0 <= i < len(cl) for i in allidx):
        raise Violation("balanced:index-out-of-range", "")
    per_class = Counter(cl[i] for i in allidx)
    missing = eff - len(allidx)
    if missing != eff % W:
        raise Violation("balanced:dropped-entries", f"{missing} dropped, expected {eff % W}")
    if sum(k - per_class.get(c, 0) for c in range(C)) != missing or any(per_class.get(c, 0) > k for c in range(C)):
        raise Violation("balanced:class-counts", f"per class {dict(per_class)}, samples_per_class {k}, dropped {missing}")
    if W == 1:
        use = Counter(allidx)
        for c in range(C):
            uses = [use.get(i, 0) for i in range(len(cl)) if cl[i] == c]
            if max(uses) - min(uses) > 1:
                raise Violation("balanced:uneven-reuse", f"class {c} usage {uses}")
    nt = any(k % c != 0 for c in counts) or W >= 2
    return Case(nt, ["W=%d" % W, "shuffle" if spec["shuffle"] else "ordered"], W)


def check_semi(spec):
    from kappadata.samplers import SemiSampler
    nl, nu = spec["n_labeled"], spec["n_unlabeled"]
    rng = np.random.default_rng(spec["key"])
    cl = [int(c) for c in rng.integers(0, 3, size=nl)] + [-1] * nu
    rng.shuffle(cl)
    cl = [int(c) for c in cl]
    ds = ClassRoot(cl, 3, spec["bulk"])
    L, U, W, mode = spec["L"], spec["U"], spec["W"], spec["mode"]
    lab = [i for i, c in enumerate(cl) if c != -1]
    unl = [i for i, c in enumerate(cl) if c == -1]
    chunks = {"labeled": len(lab) // L, "unlabeled": len(unl) // U, "all": (len(lab) + len(unl)) // (L + U)}[mode]
    exp_eff = chunks * (L + U)
    streams = []
    exhausted = False
    # late_counts: the sampler starts out with another chunk composition (1 + 1) and is re-configured afterwards
    Lc, Uc = (1, 1) if spec.get("late_counts") else (L, U)
    for r in range(W):
        if spec.get("late_rank"):
            # the sampler is built before the process knows its rank; rank and world size are assigned afterwards (public attributes)
            s = SemiSampler(ds, num_labeled=Lc, num_unlabeled=Uc, rank=0, world_size=1, seed=spec["seed"], length_mode=mode)
            s.rank, s.world_size = r, W
        elif spec.get("call") == "positional":
            # documented order: dataset, num_labeled, num_unlabeled, rank, world_size, seed, length_mode
            s = SemiSampler(ds, Lc, Uc, r, W, spec["seed"], mode)
        else:
            s = SemiSampler(ds, num_labeled=Lc, num_unlabeled=Uc, rank=r, world_size=W, seed=spec["seed"], length_mode=mode)
        if spec.get("late_counts"):
            # the chunk composition is re-configured on the existing sampler (public attributes, e.g. a labeled/unlabeled ratio schedule):
            # length and alternation follow the values that are set when the epoch is drawn
            list(itertools.islice(iter(s), 3))
            s.num_labeled, s.num_unlabeled = L, U
        s.set_epoch(spec["epoch"])
        if s.effective_length != exp_eff:
            raise Violation(f"semi:effective-length:{mode}", f"{s.effective_length} vs {exp_eff}")
        st_ = list(s)
        _two_live(s, st_, "semi")
        if len(st_) != len(s) or len(st_) != exp_eff // W:
            raise Violation("semi:per-rank-length", f"{len(st_)} vs {exp_eff}//{W}")
        lseq, useq = [], []
        for t, i in enumerate(st_):
            want_labeled = t % (L + U) < L
            if not 0 <= i < len(cl):
                raise Violation("semi:index-out-of-range", str(i))
            if (cl[i] != -1) != want_labeled:
                raise Violation("semi:alternation-pattern", f"position {t}: index {i} is {'labeled' if cl[i] != -1 else 'unlabeled'}, "
                                                            f"pattern {L}+{U} wants {'labeled' if want_labeled else 'unlabeled'}")
            (lseq if want_labeled else useq).append(i)
        for name, seq, pool in (("labeled", lseq, lab), ("unlabeled", useq, unl)):
            for b in range(0, len(seq), len(pool)):
                block = seq[b:b + len(pool)]
                if len(block) == len(pool):
                    if sorted(block) != sorted(pool):
                        raise Violation(f"semi:pool-repeats-before-exhausted:{name}", f"block {block} of pool {pool}")
                    if b + len(pool) < len(seq):
                        exhausted = True
                elif len(set(block)) != len(block):
                    raise Violation(f"semi:pool-repeats-before-exhausted:{name}", f"partial block {block}")
        streams.append(st_)
    if W >= 2 and len(streams[0]) >= 8 and min(len(lab), len(unl)) >= 4 and streams[0] == streams[1]:
        same = 0
        for sd in (1, 2):
            a = SemiSampler(ds, num_labeled=L, num_unlabeled=U, rank=0, world_size=W, seed=spec["seed"] + sd, length_mode=mode)
            if spec.get("late_rank"):
                b = SemiSampler(ds, num_labeled=L, num_unlabeled=U, rank=0, world_size=1, seed=spec["seed"] + sd, length_mode=mode)
                b.rank, b.world_size = 1, W
            else:
                b = SemiSampler(ds, num_labeled=L, num_unlabeled=U, rank=1, world_size=W, seed=spec["seed"] + sd, length_mode=mode)
            same += list(a) == list(b)
        if same == 2:
            raise Violation("semi:ranks-share-a-stream", "ranks 0 and 1 yield identical streams for three seeds")
    return Case(exhausted or W >= 2, [mode, "W=%d" % W] + (["pool-exhausted"] if exhausted else []), W)


def check_weighted(spec):
    from kappadata.samplers import WeightedSampler
    n, W = spec["n"], spec["W"]
    rng = np.random.default_rng(spec["key"])
    wts = torch.tensor(rng.random(n), dtype=torch.float32)
    wts[torch.from_numpy(rng.random(n) < spec["zero_frac"])] = 0
    nz = int((wts > 0).sum())
    if nz == 0:
        raise Refused("all weights zero")
    size = spec["size"]
    if size is None and nz < n:
        size = nz
    if size is not None:
        size = max(1, min(size, nz))
    allidx = []
    for r in range(W):
        if spec.get("call") == "positional":
            # documented order: dataset, weights, size, seed, rank, world_size
            s = WeightedSampler(PlainDS(n), wts, size, spec["seed"], r, W)
        else:
            s = WeightedSampler(PlainDS(n), weights=wts, size=size, seed=spec["seed"], rank=r, world_size=W)
        s.set_epoch(spec["epoch"])
        st_ = list(s)
        _two_live(s, st_, "weighted")
        if len(st_) != len(s) or len(st_) != (size or n) // W:
            raise Violation("weighted:per-rank-length", f"{len(st_)} vs {(size or n)}//{W}")
        allidx += st_
    if any(not 0 <= i < n for i in allidx):
        raise Violation("weighted:index-out-of-range", "")
    if len(set(allidx)) != len(allidx):
        raise Violation("weighted:index-repeated-within-epoch", str(sorted(allidx)))
    if any(float(wts[i]) == 0 for i in allidx):
        raise Violation("weighted:zero-weight-index-drawn", "")
    return Case(W >= 2 or nz < n, ["W=%d" % W, "zeros" if nz < n else "all-positive"], W)


# sampler seeds: the usual small ones and values around the 31/32-bit boundaries and beyond (the generators take 64-bit seeds)
SEEDS = st.one_of(st.integers(0, 2 ** 20), st.sampled_from([2 ** 31 - 1, 2 ** 31, 2 ** 32 - 1, 2 ** 32 + 5, 2 ** 40 + 3]))
WS = st.sampled_from([1, 2, 2, 3, 4])
CALL = st.sampled_from(["keyword", "keyword", "positional"])
# label containers as datasets hand them out: lists, int64 arrays - and the narrow integer dtypes label files are stored in
# (class id x dataset size exceeds the range of int8/uint8 for the larger layouts)
BULK = st.sampled_from(["list", "numpy", "tensor", "numpy:uint8", "numpy:int8", "numpy:int16", "numpy:int32", "tensor:uint8",
                        "tensor:int8", "tensor:int16", "tensor:int32"])
COUNTS = st.one_of(st.lists(st.integers(1, 7), min_size=2, max_size=6), st.lists(st.integers(1, 12), min_size=5, max_size=12))
BAL = st.fixed_dictionaries({"counts": COUNTS, "key": st.integers(0, 999),
                             "bulk": BULK, "spc": st.one_of(st.none(), st.integers(1, 21)),
                             "shuffle": st.booleans(), "W": WS, "seed": SEEDS, "epoch": st.integers(0, 50), "call": CALL, "late_spc": st.booleans()})
SEMI = st.fixed_dictionaries({"n_labeled": st.integers(1, 12), "n_unlabeled": st.integers(1, 12), "key": st.integers(0, 999),
                              "bulk": st.sampled_from(["list", "numpy", "tensor"]), "L": st.integers(1, 4), "U": st.integers(1, 4), "W": WS,
                              "mode": st.sampled_from(["labeled", "unlabeled", "all"]), "seed": SEEDS, "call": CALL, "late_rank": st.booleans(), "late_counts": st.booleans(),
                              "epoch": st.integers(0, 50)})
WEI = st.fixed_dictionaries({"n": st.integers(1, 40), "key": st.integers(0, 999), "zero_frac": st.sampled_from([0.0, 0.3, 0.6]),
                             "size": st.one_of(st.none(), st.integers(1, 40)), "W": WS, "seed": SEEDS, "call": CALL,
                             "epoch": st.integers(0, 50)})

FACETS = [
    Facet("class-balanced", check_balanced, strategy=lambda tier: BAL, budget={"quick": 3000, "thorough": 20000},
          shards={"quick": 4, "thorough": 8}, min_nontrivial={"quick": 300, "thorough": 3000}),
    Facet("semi", check_semi, strategy=lambda tier: SEMI, budget={"quick": 3000, "thorough": 20000},
          shards={"quick": 4, "thorough": 8}, min_nontrivial={"quick": 300, "thorough": 3000}),
    Facet("weighted", check_weighted, strategy=lambda tier: WEI, budget={"quick": 2000, "thorough": 20000},
          shards={"quick": 3, "thorough": 8}, min_nontrivial={"quick": 200, "thorough": 3000}),
]
