"""C18 - the collator pipeline keeps the batch layout and context contract."""
from unittest.mock import patch

import numpy as np
import torch
from hypothesis import strategies as st
from torch.utils.data import default_collate

from vlib.core import Case, Facet, Refused, Violation, guarded

# thorough-tier budgets of every facet are multiplied by this factor (sized for ~5-8 min on 16 cores)
THOROUGH_SCALE = 5
LEVEL = "exploration"
RULE = ("pipeline facet: dataset mode of 1-4 items (fixed-shape tensors, ints, lists of views), return_ctx, per-sample ctx dicts "
        "with a common key set, batch 1-6, 1-4 harness collators with default_collate_mode in {before, after, None} that are pure "
        "commuting tagging functions and verify the form (uncollated samples vs collated batch) they are handed, called as "
        "KDComposeCollator / configured KDSingleCollator / KDSingleCollatorWrapper, optionally with shipped collators (mix, DINO "
        "mask); oracle = reference model of the protocol: result structurally equal to the tags applied around ONE default "
        "collation, (batch, ctx) iff return_ctx, no ctx key lost or invented, unsatisfiable orders refused by assertion, counting "
        "wrapper: batch collated at most once. padding facet: sequence-length profiles, single/multi-item modes, with/without ctx "
        "through both ctx paths -> every tensor field with ndim>0 zero-padded to the batch maximum, other fields as default "
        "collation; non-trivial = >=2 collators with >=2 modes, or return_ctx with a None/after member, or single-item mode, or >=3 "
        "different lengths; distinct = distinct spec hash")
ASSUMPTIONS = ["harness collators are pure and commute, so the reference result does not depend on where collation happens - the "
               "position is checked by the form each member is handed and by the collation counter"]

PRIMES = [2, 3, 5, 7]


class ProtocolError(Exception):
    pass


def _mk_collator(k, mode_kind, B, field, single, errors, silent=False):
    from kappadata.collators import KDSingleCollator

    class H(KDSingleCollator):
        @property
        def default_collate_mode(self):
            return mode_kind

        def collate(self, batch, dataset_mode, ctx=None):
            try:
                return self._collate(batch, dataset_mode, ctx)
            except ProtocolError as e:
                # record and pass the data through: whether the pipeline then refuses or answers is judged by the check
                errors.append(str(e))
                return batch

        def _collate(self, batch, dataset_mode, ctx=None):
            p = PRIMES[k]
            if ctx is not None:
                if not isinstance(ctx, dict):
                    raise ProtocolError(f"member {k} got a ctx of type {type(ctx).__name__}")
                if not silent:
                    ctx[f"c{k}"] = torch.tensor(float(k))
            if mode_kind == "before":
                # must see the collated batch
                item = batch if single else batch[field]
                if not (torch.is_tensor(item) and item.shape[0] == B) or (not single and not isinstance(batch, (tuple, list))):
                    raise ProtocolError(f"'before' member {k} did not receive a collated batch ({type(batch).__name__})")
                if single:
                    return item * p
                out = list(batch)
                out[field] = item * p
                return tuple(out) if isinstance(batch, tuple) else out
            # None / after: must see B uncollated samples
            if not isinstance(batch, (list, tuple)) or len(batch) != B:
                raise ProtocolError(f"'{mode_kind}' member {k} did not receive {B} uncollated samples ({type(batch).__name__})")
            out = []
            for s in batch:
                if single:
                    if not (torch.is_tensor(s) and s.ndim == 1):
                        raise ProtocolError(f"'{mode_kind}' member {k}: sample is not an uncollated item")
                    out.append(s * p)
                else:
                    if not isinstance(s, (tuple, list)) or not torch.is_tensor(s[field]) or s[field].ndim != 1:
                        raise ProtocolError(f"'{mode_kind}' member {k}: sample is not an uncollated item tuple ({type(s).__name__})")
                    t = list(s)
                    t[field] = s[field] * p
                    out.append(tuple(t))
            return out
    return H()


def _make_samples(spec):
    B = spec["B"]
    items = spec["items"]
    samples = []
    for b in range(B):
        vals = []
        for j, kind in enumerate(items):
            if kind == "x":
                vals.append(torch.tensor([1.0 + b, 2.0 + j, 3.0]))
            elif kind == "int":
                vals.append(b * 10 + j)
            elif kind == "views":
                vals.append([torch.tensor([float(b)]), torch.tensor([float(b + 100)])])
            elif kind == "dictitem":
                # an item that is a dict itself (e.g. recorded crop parameters requested through a ctx.* item): collates to a dict of tensors
                vals.append({"top": torch.tensor(float(b)), "left": torch.tensor(float(b + j))})
            else:
                vals.append(torch.tensor(float(b)))
        item = vals[0] if len(vals) == 1 else tuple(vals)
        ctx = {key: torch.tensor(float(b * 7 + n)) for n, key in enumerate(spec["ctx_keys"])}
        samples.append((item, ctx) if spec["return_ctx"] else item)
    return samples


def _struct_eq(a, b):
    if torch.is_tensor(a) or torch.is_tensor(b):
        return torch.is_tensor(a) and torch.is_tensor(b) and a.shape == b.shape and torch.allclose(a.double(), b.double())
    if isinstance(a, (list, tuple)) or isinstance(b, (list, tuple)):
        return type(a) is type(b) and len(a) == len(b) and all(_struct_eq(x, y) for x, y in zip(a, b))
    if isinstance(a, dict) or isinstance(b, dict):
        return isinstance(a, dict) and isinstance(b, dict) and a.keys() == b.keys() and all(_struct_eq(a[k], b[k]) for k in a)
    return a == b


def _satisfiable(modes):
    called = False
    for m in modes:
        if m is None and called:
            return False
        if m == "after":
            if called:
                return False
            called = True
        if m == "before":
            called = True
    return True


def check_pipeline(spec):
    import kappadata.collators as KC
    import kappadata.collators.base.kd_collator_base as base
    B, items, modes = spec["B"], spec["items"], spec["modes"]
    field = items.index("x")
    single = len(items) == 1
    mode_str = " ".join(f"i{j}" if k != "x" else "x" for j, k in enumerate(items))
    errors = []
    silent = bool(spec.get("silent"))
    colls = [_mk_collator(k, m, B, field, single, errors, silent) for k, m in enumerate(modes)]
    how = spec["how"]
    if how == "single" or how == "wrapper":
        colls, modes = colls[:1], modes[:1]
    other_mode = " ".join(reversed(mode_str.split(" ")))

    def decoy():
        # the same collator objects may be wrapped a second time with another configuration (e.g. train vs eval pipeline):
        # that must not change what this pipeline does - whichever of the two is built first
        if how == "wrapper":
            KC.KDSingleCollatorWrapper(colls[0], dataset_mode=other_mode, return_ctx=not spec["return_ctx"])
        elif how == "compose":
            KC.KDComposeCollator(colls, dataset_mode=other_mode, return_ctx=not spec["return_ctx"])
    if spec.get("decoy") == "before":
        decoy()
    if how == "compose":
        if spec.get("late") and len(colls) >= 2:
            # the pipeline is assembled step by step: the last member is appended to the public list after construction
            pipe = KC.KDComposeCollator(colls[:-1], dataset_mode=mode_str, return_ctx=spec["return_ctx"])
            pipe.collators.append(colls[-1])
        else:
            pipe = KC.KDComposeCollator(colls, dataset_mode=mode_str, return_ctx=spec["return_ctx"])
    elif how == "single":
        pipe = colls[0]
        pipe.dataset_mode, pipe.return_ctx = mode_str, spec["return_ctx"]
    else:
        pipe = KC.KDSingleCollatorWrapper(colls[0], dataset_mode=mode_str, return_ctx=spec["return_ctx"])
    if spec.get("decoy") == "after":
        decoy()
    if spec.get("fluent"):
        # the fluent form: what set_rng hands back is used as the collate function
        pipe = pipe.set_rng(np.random.default_rng(5))
    samples = _make_samples(spec)
    counter = {"batch": 0}
    real = base.default_collate

    def counting(x):
        if not (isinstance(x, (list, tuple)) and len(x) and isinstance(x[0], dict)):
            counter["batch"] += 1
        return real(x)
    sat = _satisfiable(modes)
    tag = f"{_ms(modes)}:{'ctx' if spec['return_ctx'] else 'noctx'}"
    try:
        with patch.object(base, "default_collate", counting):
            got = pipe(samples)
    except Exception as e:
        if not sat:
            # no correct answer exists for this order: any refusal is fine (an assertion is the documented one)
            raise Refused("unsatisfiable order refused: " + type(e).__name__)
        raise Violation(f"satisfiable-order-raises:{type(e).__name__}:{how}:{tag}", f"{how} {modes}: {e!r}"[:300])
    if not sat:
        raise Violation(f"unsatisfiable-order-answered-silently:{_ms(modes)}", f"{how} {modes} returned {_short(got)}")
    if errors:
        raise Violation(f"member-handed-wrong-form:{how}:{tag}", f"{how} {modes}: {errors[0]}")
    if counter["batch"] > 1:
        raise Violation(f"batch-collated-more-than-once:{_ms(modes)}", f"{counter['batch']} default_collate calls on batch data")
    # reference result
    raw_items = [s[0] if spec["return_ctx"] else s for s in samples]
    prod = 1
    for k in range(len(modes)):
        prod *= PRIMES[k]
    collated_somewhere = any(m in ("before", "after") for m in modes)

    def tag_sample(it):
        if single:
            return it * prod
        t = list(it)
        t[field] = it[field] * prod
        return tuple(t)
    if collated_somewhere:
        exp = default_collate([tag_sample(it) for it in raw_items])
        if not single:
            exp = tuple(exp) if isinstance(got[0] if spec["return_ctx"] else got, tuple) else list(exp)
    else:
        exp = [tag_sample(it) for it in raw_items]
    if spec["return_ctx"]:
        if not (isinstance(got, tuple) and len(got) == 2 and isinstance(got[1], dict)):
            raise Violation("return-ctx-contract", f"return_ctx=True but result is {type(got).__name__}")
        got_batch, got_ctx = got
        exp_ctx = default_collate([s[1] for s in samples]) if spec["ctx_keys"] else {}
        for k in range(len(modes)):
            if not silent:
                exp_ctx[f"c{k}"] = torch.tensor(float(k))
        lost = set(exp_ctx) - set(got_ctx)
        invented = set(got_ctx) - set(exp_ctx)
        if lost or invented:
            raise Violation("ctx-keys-lost-or-invented", f"lost {sorted(lost)} invented {sorted(invented)}")
        if not _struct_eq(got_ctx, exp_ctx):
            raise Violation("ctx-values-differ", f"{got_ctx} vs {exp_ctx}"[:300])
    else:
        got_batch = got
        if isinstance(got, tuple) and len(got) == 2 and isinstance(got[1], dict) and "c0" in got[1]:
            raise Violation("return-ctx-contract", "return_ctx=False but a ctx was returned")
    if not _struct_eq(_norm(got_batch), _norm(exp)):
        raise Violation(f"batch-layout-or-content-differs:{_ms(modes)}", f"{how}: got {_short(got_batch)} expected {_short(exp)}")
    nt = (len(set(modes)) >= 2) or (spec["return_ctx"] and any(m in (None, "after") for m in modes)) or single
    return Case(nt, [how, _ms(modes), "ctx" if spec["return_ctx"] else "noctx"])


def _norm(x):
    # tuple vs list of the outer item container is not part of the contract checked here
    if isinstance(x, (tuple, list)):
        return [_norm(v) if isinstance(v, (tuple, list)) else v for v in x]
    return x


def _short(x):
    return repr(x).replace("\n", " ")[:200]


def _ms(modes):
    return ",".join("none" if m is None else m for m in modes)


def check_shipped(spec):
    """shipped 'before' collators inside a compose with harness members and per-sample ctx"""
    import kappadata.collators as KC
    B = spec["B"]
    xs = [torch.full((1, 4, 4), float(b + 1)) for b in range(B)]
    ys = [torch.nn.functional.one_hot(torch.tensor(b % 3), 3).float() for b in range(B)]
    if spec.get("binary"):
        ys = [torch.tensor(float(b % 2)) for b in range(B)]  # binary task: one number in [0, 1] per sample, the batch field is (B,)
    samples = [((xs[b].clone(), ys[b].clone()), {"tag": torch.tensor(float(b))}) for b in range(B)]
    colls = []
    for name in spec["colls"]:
        if name == "mix":
            # own_mode: the member was configured for direct use with a mode of its own; inside a container the container's mode governs
            own = dict(dataset_mode="class x", return_ctx=False) if spec.get("own_mode") else {}
            colls.append(KC.KDMixCollator(mixup_alpha=1.0, mixup_p=1.0, shuffle_mode="roll", **own))
        else:
            colls.append(KC.KDDinoMaskCollator(mask_ratio=(0.1, 0.5), mask_prob=0.5, mask_size=(4, 4), num_views=1))
    for c in colls:
        c.set_rng(np.random.default_rng(spec["seed"]))
    if spec.get("dict_second"):
        # a two-item mode whose second item is a dict (recorded crop parameters requested next to the image): it is an item of the batch,
        # not the context - whatever container type the members hand back
        samples2 = [((xs[b].clone(), {"top": torch.tensor(float(b)), "left": torch.tensor(float(2 * b))}), {"tag": torch.tensor(float(b))}) for b in range(B)]
        out = KC.KDComposeCollator(colls, dataset_mode="x crop", return_ctx=True)(samples2)
        if not (isinstance(out, tuple) and len(out) == 2 and isinstance(out[1], dict) and "tag" in out[1]):
            raise Violation("shipped:dict-item-mistaken-for-the-context", f"result {type(out).__name__} with context keys {sorted(out[1]) if isinstance(out, tuple) and len(out) == 2 and isinstance(out[1], dict) else '?'}")
        b2, ctx2 = out
        if not (isinstance(b2, (tuple, list)) and len(b2) == 2 and isinstance(b2[1], dict) and sorted(b2[1]) == ["left", "top"]
                and b2[1]["top"].tolist() == [float(b) for b in range(B)] and tuple(b2[0].shape) == (B, 1, 4, 4)):
            raise Violation("shipped:dict-item-lost-or-changed", f"batch {type(b2).__name__}: {b2[1] if isinstance(b2, (tuple, list)) and len(b2) == 2 else b2!r}"[:300])
        return Case(True, spec["colls"] + ["dict-second"])
    pipe = KC.KDComposeCollator(colls, dataset_mode="x class", return_ctx=True)
    (x, y), ctx = pipe(samples)
    if tuple(x.shape) != (B, 1, 4, 4) or tuple(y.shape) != ((B,) if spec.get("binary") else (B, 3)):
        raise Violation("shipped:layout", f"{tuple(x.shape)} {tuple(y.shape)}")
    need = {"tag"} | ({"apply", "use_cutmix", "lambda"} if "mix" in spec["colls"] else set()) | ({"mask"} if "dino" in spec["colls"] else set())
    if set(ctx) != need:
        raise Violation("shipped:ctx-keys-lost-or-invented", f"{sorted(ctx)} vs {sorted(need)}")
    if ctx["tag"].tolist() != [float(b) for b in range(B)]:
        raise Violation("shipped:per-sample-ctx-changed", "")
    if "mix" not in spec["colls"] and (not torch.equal(x, torch.stack(xs)) or not torch.equal(y, torch.stack(ys))):
        raise Violation("shipped:batch-changed-by-mask-collator", "")
    if spec["colls"].count("mix") == 1 and B > 1:
        # the one mix member mixed the item the CONTAINER's mode calls x (constant images k+1) with its roll partner, by the reported weights
        lam = ctx["lambda"].flatten().tolist()
        if len(lam) == 1:
            lam = lam * B  # one weight for the whole batch
        for i in range(B):
            p_ = (i - 1) % B
            ex = lam[i] * (i + 1) + (1 - lam[i]) * (p_ + 1)
            ey = lam[i] * ys[i] + (1 - lam[i]) * ys[p_]
            if abs(float(x[i].flatten()[0]) - ex) > 1e-4 or float((y[i] - ey).abs().max()) > 1e-4 or y[i].shape != ey.shape:
                raise Violation("shipped:mix-member-did-not-mix-the-containers-x-and-class", f"row {i}: x {float(x[i].flatten()[0]):.4f} expected {ex:.4f}, "
                                                                                            f"y {y[i].tolist()} expected {ey.tolist()}")
    return Case(len(spec["colls"]) >= 2, spec["colls"])


def check_padding(spec):
    from kappadata.collators import KDComposeCollator, PadSequencesCollator
    lens = spec["lens"]
    B = len(lens)
    items = spec["items"]
    samples, raw = [], []
    for b, L in enumerate(lens):
        vals = []
        for j, kind in enumerate(items):
            if kind == "seq":
                vals.append(torch.arange(L, dtype=torch.float32) + b + 1 + j)
            elif kind == "seq2":
                vals.append(torch.ones(L + j, 2) * (b + 1))
            elif kind == "seq3":
                vals.append(torch.ones(L, 2, 3) * (b + 1) + j)  # clips: variable length in front of two fixed axes
            elif kind == "seq4":
                vals.append(torch.ones(L + 1, 1, 2, 2) * (b + 2))
            elif kind == "pyfloat":
                vals.append(b * 0.1 + 1.0 / 3.0)  # a plain python float (regression target): default collation makes it float64
            elif kind == "scalar_t":
                vals.append(torch.tensor(float(b)))
            elif kind == "views":
                v = torch.full((3,), float(b + 1 + j))
                vals.append((v, -v))  # one item that is itself a tuple (two fixed-size views of the sample)
            else:
                vals.append(b * 3 + j)
        item = vals[0] if len(vals) == 1 else tuple(vals)
        raw.append(vals)
        samples.append((item, {"k": torch.tensor(float(b))}) if spec["ctx"] else item)
    mode_str = " ".join(f"i{j}" for j in range(len(items)))
    # the two documented ways of combining padding with per-sample contexts
    via = spec["via"]
    pipe = KDComposeCollator([PadSequencesCollator()], dataset_mode=mode_str, return_ctx=bool(spec["ctx"] and via == "compose_ctx"))
    got = pipe(samples)
    if spec["ctx"]:
        if not (isinstance(got, tuple) and len(got) == 2 and isinstance(got[1], dict)):
            raise Violation("padding:ctx-not-returned", f"{type(got).__name__}")
        got, ctx = got
        if set(ctx) != {"k"} or ctx["k"].tolist() != [float(b) for b in range(B)]:
            raise Violation("padding:ctx-keys-or-values", str(ctx))
    fields = [got] if len(items) == 1 else list(got)
    if len(fields) != len(items):
        raise Violation("padding:layout", f"{len(fields)} fields for {len(items)} items")
    for j, kind in enumerate(items):
        col = [r[j] for r in raw]
        f = fields[j]
        if kind in ("seq", "seq2", "seq3", "seq4"):
            mx = max(c.shape[0] for c in col)
            if not torch.is_tensor(f) or f.shape[0] != B or f.shape[1] != mx:
                raise Violation("padding:not-padded-to-batch-maximum", f"field {j}: {getattr(f, 'shape', type(f))}, max length {mx}")
            for b, c in enumerate(col):
                if not torch.equal(f[b, :c.shape[0]], c):
                    raise Violation("padding:original-content-changed", f"field {j} sample {b}")
                if f[b, c.shape[0]:].abs().sum() != 0:
                    raise Violation("padding:pad-value-not-zero", f"field {j} sample {b}")
        elif kind == "views":
            # container type (list / tuple) of the collated pair is not promised; its two members are
            exp = default_collate(col)
            if not (isinstance(f, (list, tuple)) and len(f) == 2 and all(torch.is_tensor(a) and a.shape == e.shape and torch.equal(a, e) for a, e in zip(f, exp))):
                raise Violation("padding:tuple-item-lost-or-changed", f"field {j}: {_short(f)}")
        else:
            exp = default_collate(col)
            if not _struct_eq(f, exp) or (torch.is_tensor(exp) and (not torch.is_tensor(f) or f.dtype != exp.dtype or not torch.equal(f, exp))):
                raise Violation("padding:other-field-differs-from-default-collate", f"field {j}: {f} vs {exp}"
                                                                                    f"{' (dtype ' + str(f.dtype) + ' vs ' + str(exp.dtype) + ')' if torch.is_tensor(f) and torch.is_tensor(exp) else ''}")
    nt = len(items) == 1 or len(set(lens)) >= 3
    return Case(nt, [via if spec["ctx"] else "noctx", "items=%d" % len(items)])


MODE = st.sampled_from(["before", "after", None])
PIPE = st.fixed_dictionaries({
    "B": st.integers(1, 6),
    "items": st.lists(st.sampled_from(["int", "scalar_t", "views", "dictitem"]), min_size=0, max_size=3).flatmap(
        lambda rest: st.integers(0, len(rest)).map(lambda pos: rest[:pos] + ["x"] + rest[pos:])),
    "modes": st.one_of(st.lists(MODE, min_size=1, max_size=4),
                       st.sampled_from([[None, "after", "before"], [None, None, "before"], [None, "before", "before"], [None, "after"],
                                        [None, None, "after", "before"], ["after", "before", "before"], [None, None]])),
    "return_ctx": st.booleans(),
    "ctx_keys": st.lists(st.sampled_from(["a", "b", "view0"]), max_size=2, unique=True),
    "how": st.sampled_from(["compose", "compose", "compose", "single", "wrapper"]), "late": st.booleans(),
    "silent": st.booleans(), "decoy": st.sampled_from([None, "before", "after"]), "fluent": st.booleans(),
})
SHIPPED = st.fixed_dictionaries({"B": st.integers(1, 6), "binary": st.booleans(), "colls": st.lists(st.sampled_from(["mix", "dino"]), min_size=1, max_size=3),
                                 "seed": st.integers(0, 999), "own_mode": st.booleans(), "dict_second": st.sampled_from([False, False, True])})
PAD = st.fixed_dictionaries({
    "lens": st.lists(st.integers(1, 7), min_size=1, max_size=6),
    "items": st.lists(st.sampled_from(["seq", "seq", "seq2", "seq3", "seq4", "scalar_t", "int", "pyfloat", "views"]), min_size=1, max_size=4),
    "ctx": st.booleans(), "via": st.sampled_from(["compose_ctx", "collator_ctx"]),
})

FACETS = [
    Facet("pipeline", guarded("pipeline", check_pipeline), strategy=lambda tier: PIPE, budget={"quick": 4000, "thorough": 60000},
          shards={"quick": 6, "thorough": 12}, min_nontrivial={"quick": 800, "thorough": 8000}),
    Facet("shipped-collators", guarded("shipped", check_shipped), strategy=lambda tier: SHIPPED, budget={"quick": 300, "thorough": 3000},
          shards={"quick": 1, "thorough": 4}, min_nontrivial={"quick": 50, "thorough": 500}),
    Facet("padding", guarded("padding", check_padding), strategy=lambda tier: PAD, budget={"quick": 2000, "thorough": 30000},
          shards={"quick": 4, "thorough": 8}, min_nontrivial={"quick": 300, "thorough": 3000}),
]
