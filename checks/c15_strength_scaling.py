"""C15 - strength scaling interpolates from identity to the configured augmentation; scheduled transforms apply the
schedule's value at global batch b independent of the number of workers."""
import copy
import math
from functools import partial
from unittest.mock import patch

import numpy as np
import torch
from hypothesis import strategies as st
from PIL import Image

from vlib import treg
from vlib.core import Case, Facet, Refused, Violation, guarded

# thorough-tier budgets of every facet are multiplied by this factor (sized for ~5-8 min on 16 cores)
THOROUGH_SCALE = 4
LEVEL = "exploration"
RULE = ("spec = scalable transform spec (colour jitter, both blurs, solarize int/float, random grayscale, rotation, additive "
        "gaussian/uniform noise, threshold - each also in its random-apply form - rand-augment, rand-augment-custom, "
        "KDComposeTransform nestings, KDScheduledTransform) + a factor sequence f_1..f_m in [0,1]; observation R(f) = (a) every "
        "numeric attribute reachable by a generic object walk and (b) the (lo,hi)/(loc,scale) arguments the transform requests "
        "from an injected spy generator during one call; oracle: R(1)==R_constructed, R after the sequence == R of a fresh "
        "instance scaled once by f_m, for f<=g every value of R(f) lies between R(0) and R(g), R(0) has every requested range "
        "collapsed and the transform is the identity where it has one; scheduled facet: W simulated round-robin workers (and real "
        "DataLoaders in the thorough tier) - every sample of global batch b carries strength == schedule(b, T); non-trivial = "
        "factor sequence with a decrease followed by an increase, or a composite, or W>=2; distinct = distinct spec hash")
ASSUMPTIONS = ["KDRandomApply and PatchwiseTransform report supports_scale_strength()==False and are outside 'transforms that support "
               "strength scaling'; compositions are KDComposeTransform nestings and KDScheduledTransform",
               "KDRandomRotation.scale_strength asserts lb==ub: other ranges are refusals",
               "full batches only (stated in C15)"]


class SpyRng:
    """stands in for np.random.Generator: records requested ranges and answers with the range's midpoint / 'apply'"""

    def __init__(self):
        self.log = []

    def uniform(self, low=0.0, high=1.0, size=None):
        self.log.append(("uniform", float(low), float(high)))
        v = (low + high) / 2
        return v if size is None else np.full(size, v)

    def normal(self, loc=0.0, scale=1.0, size=None):
        self.log.append(("normal", float(loc), float(np.max(scale))))
        return loc if size is None else np.full(size, float(loc))

    def random(self, size=None, dtype=np.float64):
        return 0.0 if size is None else np.zeros(size, dtype=dtype)

    def integers(self, low, high=None, size=None, **kw):
        lo = 0 if high is None else low
        return int(lo) if size is None else np.full(size, lo, dtype=np.int64)

    def permutation(self, n):
        return np.arange(n) if isinstance(n, (int, np.integer)) else np.asarray(n)

    def choice(self, a, size=None, replace=True, p=None):
        a = list(range(a)) if isinstance(a, (int, np.integer)) else list(a)
        if size is None:
            return a[0]
        out = np.empty(size, dtype=object)
        for i in range(size):
            out[i] = a[i % len(a)]
        return out

    def beta(self, a, b, size=None):
        return 0.5 if size is None else np.full(size, 0.5)

    def standard_normal(self, size=None, dtype=np.float64):
        return np.zeros(size, dtype=dtype)

    def shuffle(self, x):
        pass

    def multinomial(self, n, pvals, size=None):
        out = np.zeros(len(pvals), dtype=np.int64)
        out[0] = n
        return out


def attr_snapshot(obj, path="", seen=None, out=None, depth=0):
    """every int/float attribute reachable through __dict__ / lists / tuples / bound-method owners (no names hard-coded)"""
    seen = set() if seen is None else seen
    out = {} if out is None else out
    if depth > 10 or id(obj) in seen:
        return out
    if isinstance(obj, bool) or obj is None or isinstance(obj, (str, bytes, torch.Tensor, np.ndarray, np.random.Generator, SpyRng, type)):
        return out
    if isinstance(obj, (int, float)):
        out[path] = float(obj)
        return out
    seen.add(id(obj))
    if isinstance(obj, (list, tuple)):
        for i, v in enumerate(obj):
            attr_snapshot(v, f"{path}[{i}]", seen, out, depth + 1)
        return out
    mod = getattr(type(obj), "__module__", "")
    if not (mod.startswith("kappadata") or mod.startswith("checks") or mod.startswith("kappaschedules")):
        return out
    d = getattr(obj, "__dict__", None)
    if isinstance(d, dict):
        for k, v in d.items():
            if k in ("sample_counter", "logger"):
                continue
            if callable(v) and hasattr(v, "__self__"):
                continue
            attr_snapshot(v, f"{path}.{k}", seen, out, depth + 1)
    return out


def spy_ranges(t, fam, key):
    spy = SpyRng()
    t.set_rng(spy)
    x = treg.make_input(fam, key)
    ctx = {}
    y = t(treg.clone_input(x), ctx)
    ctxnum = {k: float(v) for k, v in ctx.items() if isinstance(v, (int, float)) and not isinstance(v, bool)}
    return spy.log, ctxnum, x, y


def _close(a, b, tol=1e-9):
    if isinstance(a, float) and isinstance(b, float):
        if math.isnan(a) and math.isnan(b):
            return True
        if math.isinf(a) or math.isinf(b):
            return a == b
        return abs(a - b) <= tol * max(1.0, abs(a), abs(b))
    return a == b


def _dict_close(a, b):
    return a.keys() == b.keys() and all(_close(a[k], b[k]) for k in a)


def _log_close(a, b):
    return len(a) == len(b) and all(x[0] == y[0] and _close(x[1], y[1]) and _close(x[2], y[2]) for x, y in zip(a, b))


def _between(v, a, b, tol=1e-9):
    """v lies between a and b (inclusive, with tolerance)"""
    if any(math.isnan(z) for z in (v, a, b)):
        return True
    lo, hi = min(a, b), max(a, b)
    if math.isinf(lo) or math.isinf(hi):
        return True
    return lo - tol * max(1, abs(lo)) <= v <= hi + tol * max(1, abs(hi))


IDENTITY_AT_ZERO = {"KDColorJitter", "KDRandomColorJitter", "KDAdditiveGaussianNoise", "KDAdditiveUniformNoise",
                    "KDRandomAdditiveGaussianNoise", "KDRandomRotation", "KDRandomSolarize", "KDRandomGrayscale", "KDThreshold",
                    "KDRandomThreshold"}


def _scale(t, f, spec):
    try:
        t.scale_strength(f)
    except AssertionError:
        if treg.contains(spec, "KDRandomRotation"):
            raise Refused("KDRandomRotation.scale_strength requires lb == ub")
        raise


def _history(t, fs, spec, tspec):
    """apply the factor sequence; optionally the transform travels through deepcopy / pickle after one of the factors (a view wrapper
    copying its configs, a spawn-started worker, a checkpoint) and the copy is what is scaled from then on"""
    at, how = spec.get("clone_at"), spec.get("clone_how")
    for j, f in enumerate(fs):
        _scale(t, f, tspec)
        if how and at is not None and j == at % len(fs):
            import pickle
            try:
                t = copy.deepcopy(t) if how == "deepcopy" else pickle.loads(pickle.dumps(t))
            except (pickle.PicklingError, AttributeError, TypeError):
                if how == "deepcopy":
                    raise
    return t


def check(spec):
    tspec, fs, key = spec["t"], spec["fs"], spec["key"]
    fam = spec.get("fam") or treg.family(tspec)
    names = sorted(set(treg.leaf_names(tspec)))
    tag = "+".join(names)[:60]

    def fresh():
        np.random.seed(5)
        return treg.build(tspec, factory=bool(spec.get("factory")))
    t0 = fresh()
    if not type(t0).supports_scale_strength():
        raise Refused("does not support strength scaling")
    R0_attr = attr_snapshot(t0)
    R0_log, R0_ctx, _, _ = spy_ranges(fresh(), fam, key)

    # (1) scale(1) restores the constructed ranges (also after other factors)
    t = _history(fresh(), fs, spec, tspec)
    _scale(t, 1.0, tspec)
    a = attr_snapshot(t)
    if not _dict_close(a, R0_attr):
        k = next(k for k in R0_attr if k not in a or not _close(a[k], R0_attr[k]))
        raise Violation(f"scale(1)-does-not-restore:{_leaf_of(t0, k)}", f"{tspec}: {k} constructed {R0_attr[k]} after scale(1) {a.get(k)}")
    log1, ctx1, _, _ = spy_ranges(t, fam, key)
    if not _log_close(log1, R0_log) or not _dict_close(ctx1, R0_ctx):
        raise Violation(f"scale(1)-does-not-restore-requested-ranges:{tag}", f"{tspec}: constructed {R0_log} {R0_ctx}, after scale(1) {log1} {ctx1}"[:400])

    # (4) no compounding: the sequence equals a fresh instance scaled once by the last factor
    t = _history(fresh(), fs, spec, tspec)
    u = fresh()
    _scale(u, fs[-1], tspec)
    a, b = attr_snapshot(t), attr_snapshot(u)
    if not _dict_close(a, b):
        k = next(k for k in b if k not in a or not _close(a[k], b[k]))
        raise Violation(f"scaling-compounds:{_leaf_of(t0, k)}", f"{tspec}: after {fs} {k}={a.get(k)}, fresh scaled by {fs[-1]}: {b[k]}")
    la, ca, _, _ = spy_ranges(t, fam, key)
    lb, cb, _, _ = spy_ranges(u, fam, key)
    if not _log_close(la, lb) or not _dict_close(ca, cb):
        raise Violation(f"scaling-compounds-requested-ranges:{tag}", f"{tspec}: {la} vs {lb}"[:400])

    # (4b) through compositions: a member scaled on its own in between must not survive the next scaling of the composition
    if tspec["k"] == "compose":
        t = fresh()
        _scale(t, fs[-1], tspec)
        member = t.transforms[spec["key"] % len(t.transforms)]
        if type(member).supports_scale_strength():
            try:
                member.scale_strength(spec["fg"][0])
            except AssertionError:
                raise Refused("KDRandomRotation.scale_strength requires lb == ub")
            _scale(t, fs[-1], tspec)
            a = attr_snapshot(t)
            if not _dict_close(a, b):
                k = next(k for k in b if k not in a or not _close(a[k], b[k]))
                raise Violation(f"composition-keeps-stale-member-strength:{_leaf_of(t0, k)}",
                                f"{tspec}: compose scaled to {fs[-1]}, member scaled to {spec['fg'][0]}, compose scaled to {fs[-1]} again: "
                                f"{k}={a.get(k)} but a fresh instance scaled once has {b[k]}")

    # (5) a composition is transparent: scaling it has exactly the effect on each member that scaling the member directly has
    if tspec["k"] == "compose":
        from kappadata.transforms import KDTransform
        tc = fresh()
        _scale(tc, fs[-1], tspec)
        for k_ in range(len(tc.transforms)):
            ud = fresh()
            m_ = ud.transforms[k_]
            if not isinstance(m_, KDTransform):
                continue
            try:
                m_.scale_strength(fs[-1])
            except AssertionError:
                continue
            am, bm = attr_snapshot(tc.transforms[k_]), attr_snapshot(m_)
            if not _dict_close(am, bm):
                kk = next(x for x in bm if x not in am or not _close(am[x], bm[x]))
                raise Violation(f"composition-does-not-scale-a-member:{type(m_).__name__}",
                                f"{tspec}: member {k_} scaled through the composition has {kk}={am.get(kk)}, scaled directly {bm[kk]} (factor {fs[-1]})")

    # (2) scale(0): every requested range collapsed, identity where the transform has one
    z = fresh()
    _scale(z, 0.0, tspec)
    Rz_attr = attr_snapshot(z)
    lz, cz, x, y = spy_ranges(z, fam, key)
    # "every range collapses" is claimed for transforms that support scaling; ready-made pipelines also contain members without
    # any strength notion (random resized crop, flip), whose requested ranges legitimately stay as they are
    pure = set(names) <= set(SCALABLE)
    for rec in (lz if pure else []):
        if rec[0] == "uniform" and not _close(rec[1], rec[2]):
            raise Violation(f"scale(0)-range-not-collapsed:{tag}", f"{tspec}: uniform({rec[1]}, {rec[2]}) requested at strength 0")
        if rec[0] == "normal" and not _close(rec[2], 0.0):
            raise Violation(f"scale(0)-range-not-collapsed:{tag}", f"{tspec}: normal(scale={rec[2]}) requested at strength 0")
    if set(names) <= IDENTITY_AT_ZERO and torch.is_tensor(x):
        if not (torch.is_tensor(y) and y.shape == x.shape and torch.allclose(y, x, atol=1e-6)):
            raise Violation(f"scale(0)-not-identity:{tag}", f"{tspec}: output differs from input at strength 0 (max diff "
                                                            f"{float((y - x).abs().max()) if torch.is_tensor(y) and y.shape == x.shape else 'shape'})")

    # (3) monotone: for f <= g every value of R(f) lies between R(0) and R(g)
    f, g = sorted(spec["fg"])
    tf, tg = fresh(), fresh()
    _scale(tf, f, tspec)
    _scale(tg, g, tspec)
    af, ag = attr_snapshot(tf), attr_snapshot(tg)
    for k in af:
        if k in ag and k in Rz_attr and not _between(af[k], Rz_attr[k], ag[k]):
            raise Violation(f"scaling-not-monotone:{_leaf_of(t0, k)}", f"{tspec}: {k}: R(0)={Rz_attr[k]} R({f})={af[k]} R({g})={ag[k]}")
    # and between R(0) and R(1)=constructed
    for k in af:
        if k in R0_attr and k in Rz_attr and not _between(af[k], Rz_attr[k], R0_attr[k]):
            raise Violation(f"scaling-outside-[R(0),R(1)]:{_leaf_of(t0, k)}", f"{tspec}: {k}: R(0)={Rz_attr[k]} R({f})={af[k]} R(1)={R0_attr[k]}")
    lf, _, _, _ = spy_ranges(tf, fam, key)
    lg, _, _, _ = spy_ranges(tg, fam, key)
    if len(lf) == len(lg) == len(lz):
        for rf, rg, rz in zip(lf, lg, lz):
            for j in (1, 2):
                if not _between(rf[j], rz[j], rg[j]):
                    raise Violation(f"requested-range-not-monotone:{tag}", f"{tspec}: {rz} / {rf} / {rg} for factors 0 / {f} / {g}")
    updown = any(fs[i] > fs[i + 1] < fs[i + 2] for i in range(len(fs) - 2))
    composite = tspec["k"] == "compose"
    return Case(updown or composite, names + (["composite"] if composite else []), 6)


def _leaf_of(t, path):
    return treg.owner_chain(t, path + ".x").split(">")[-1] or "?"


# ---------------------------------------------------------------------------------------- scheduled transform
class Probe:
    pass


def _probe_class():
    from kappadata.transforms import KDTransform

    class ProbeTransform(KDTransform):
        def __init__(self):
            super().__init__()
            self.f = None

        def _scale_strength(self, factor):
            self.f = factor

        def __call__(self, x, ctx=None):
            if ctx is not None:
                ctx["probe"] = -1.0 if self.f is None else float(self.f)
            return x
    return ProbeTransform


class _Info:
    def __init__(self, num_workers):
        self.num_workers = num_workers
        self.seed = 1
        self.id = 0


def _schedule(name):
    import kappaschedules as ks
    if name.startswith("const:"):
        return ks.ConstantSchedule(value=float(name[6:]))
    return {"linear": ks.LinearIncreasingSchedule, "cosine": ks.CosineIncreasingSchedule,
            "lindec": ks.LinearDecreasingSchedule}[name]()


def _schedule_arg(name):
    """what is handed to KDScheduledTransform: a schedule object, or a plain number (a constant strength - also 0 / 0.0)"""
    if name.startswith("const:"):
        return float(name[6:]) if "." in name[6:] else int(name[6:])
    return _schedule(name)


def _budget_kwargs(spec):
    B, T = spec["B"], spec["T"]
    kind = spec["budget"]
    if kind == "updates":
        return dict(batch_size=B, updates=T)
    if kind == "samples":
        return dict(batch_size=B, samples=B * T)
    # epochs: dataset_len/world_size/drop_last such that all batches are full
    e = spec["epochs"]
    per = T // e
    if per * e != T or per == 0:
        raise Refused("T not divisible into epochs")
    ws = spec["world"]
    return dict(batch_size=B, epochs=e, dataset_len=per * B * ws + (spec["extra"] % B if spec["drop_last"] else 0) * ws,
                world_size=ws, drop_last=spec["drop_last"])


def check_scheduled_sim(spec):
    from kappadata.transforms import KDComposeTransform, KDScheduledTransform
    PT = _probe_class()
    W, B, T = spec["W"], spec["B"], spec["T"]
    kw = _budget_kwargs(spec)
    probe = PT()
    template = KDScheduledTransform(probe, schedule=_schedule_arg(spec["schedule"]))
    prefix = template.ctx_key
    # 'shared': a second scheduled wrapper with another schedule holds the very same transform object and is called in
    # alternation - what a wrapper applies to a sample is its own schedule's value, whatever the object was scaled to in between
    other_name = {"linear": "lindec", "cosine": "lindec", "lindec": "cosine"}.get(spec["schedule"], "linear")
    other = KDScheduledTransform(probe, schedule=_schedule(other_name)) if spec.get("shared") else None
    if spec["nest"] and other is None:
        template = KDComposeTransform([template])
    # calls made in the main process before any worker exists (peeking at dataset[0]) are not part of the schedule
    for _ in range(spec.get("peek", 0)):
        template(None, {})
    workers = []
    for r in range(W):
        w, o = copy.deepcopy((template, other))
        with patch(target="kappadata.transforms.base.kd_transform.get_worker_info", new=lambda: _Info(W)):
            w.worker_init_fn(rank=r, **kw)
            if o is not None:
                o.worker_init_fn(rank=r, **kw)
        workers.append((w, o))
    ref, ref_other = _schedule(spec["schedule"]), _schedule(other_name)
    for b in range(T):
        w, o = workers[b % W]
        for s in range(B):
            for tr, rf, tag in ((w, ref, ""), (o, ref_other, ":shared-object")):
                if tr is None:
                    continue
                exp = rf.get_value(b, T)
                ctx = {}
                tr(None, ctx)
                got = ctx.get(prefix)
                if got is None or not _close(float(got), float(exp), 1e-9):
                    raise Violation(f"scheduled-strength-differs:{spec['budget']}{tag}", f"W={W} B={B} T={T} batch {b} sample {s}: reported {got}, "
                                                                                          f"schedule says {exp}")
                if not _close(float(ctx["probe"]), float(exp), 1e-9):
                    raise Violation(f"scheduled-strength-not-applied{tag}", f"batch {b} sample {s}: transform scaled with {ctx['probe']}, "
                                                                            f"schedule says {exp}")
    return Case(W >= 2, ["W=%d" % W, spec["budget"], spec["schedule"]] + (["shared-object"] if other is not None else []), T * B)


class _ZeroRoot:
    pass


def check_scheduled_real(spec):
    import kappadata.wrappers as KW
    from kappadata.datasets import KDDataset
    from kappadata.transforms import KDScheduledTransform
    PT = _probe_class()
    W, B, T = spec["W"], spec["B"], spec["T"]

    class Root(KDDataset):
        def __len__(self):
            return B * T

        def getitem_x(self, idx, ctx=None):
            return torch.zeros(1)

    sched = KDScheduledTransform(PT(), schedule=_schedule(spec["schedule"]))
    ds = KW.ModeWrapper(KW.XTransformWrapper(Root(), transform=sched), mode="x", return_ctx=True)
    loader = torch.utils.data.DataLoader(ds, batch_size=B, num_workers=W, shuffle=False,
                                         worker_init_fn=partial(ds.worker_init_fn, batch_size=B, updates=T))
    ref = _schedule(spec["schedule"])
    n = 0
    for b, (x, ctx) in enumerate(loader):
        exp = float(ref.get_value(b, T))
        got = ctx[sched.ctx_key].tolist()
        probe = ctx["probe"].tolist()
        if len(got) != B or any(not _close(float(g), exp, 1e-6) for g in got) or any(not _close(float(p), exp, 1e-6) for p in probe):
            raise Violation("scheduled-strength-differs:real-loader", f"W={W} B={B} T={T} batch {b}: {got} / {probe}, schedule says {exp}")
        n += 1
    if n != T:
        raise Violation("scheduled-real-loader-batch-count", f"{n} vs {T}")
    return Case(True, ["W=%d" % W], T)


# ------------------------------------------------------------------------------------------ strategies
SCALABLE = ["KDColorJitter", "KDRandomColorJitter", "KDGaussianBlurTV", "KDRandomGaussianBlurTV", "KDGaussianBlurPIL",
            "KDRandomGaussianBlurPIL", "KDRandomSolarize", "KDRandomGrayscale", "KDRandomRotation", "KDAdditiveGaussianNoise",
            "KDAdditiveUniformNoise", "KDRandomAdditiveGaussianNoise", "KDThreshold", "KDRandomThreshold", "KDRandAugment",
            "KDRandAugmentCustom"]
IMG_SCALABLE = [n for n in SCALABLE if treg.LEAVES[n][0] in ("img", "img3")]
FACTORS = st.one_of(st.sampled_from([0.0, 1.0, 0.5, 0.25]), st.floats(0, 1, allow_nan=False).map(lambda v: round(v, 4)))


def _positive_p(spec):
    a = spec.get("a", {})
    return a.get("p", 1.0) > 0


def _rot_fix(spec):
    # half of the rotation specs get lb == ub (the only range the code accepts for scaling)
    if spec["k"] == "KDRandomRotation" and isinstance(spec["a"]["degrees"], int):
        spec = {"k": "KDRandomRotation", "a": {"degrees": [spec["a"]["degrees"], spec["a"]["degrees"]]}}
    return spec


@st.composite
def scal_tspec(draw, depth):
    # KDScheduledTransform takes its strength from the schedule (supports_scale_strength() is False): it is covered by the
    # scheduled facets, not by externally driven scaling
    kind = draw(st.sampled_from(["leaf", "leaf", "compose"])) if depth > 0 else "leaf"
    if kind == "leaf":
        return _rot_fix(draw(treg.leaf_spec(draw(st.sampled_from(IMG_SCALABLE))).filter(_positive_p)))
    if kind == "compose":
        return {"k": "compose", "m": [draw(scal_tspec(depth - 1)) for _ in range(draw(st.integers(1, 3)))]}
    return {"k": "scheduled", "t": draw(scal_tspec(depth - 1))}


@st.composite
def pil_composition(draw):
    """compositions over PIL inputs: scalable PIL leaves (incl. KDRandAugmentCustom, which *inherits* its scaling), optionally
    closed by a ready-made pipeline (a nested KDComposeTransform subclass) as last member"""
    leaves = [draw(treg.leaf_spec(draw(st.sampled_from(["KDRandAugment", "KDRandAugmentCustom", "KDGaussianBlurPIL",
                                                       "KDRandomGaussianBlurPIL"]))).filter(_positive_p))
              for _ in range(draw(st.integers(0, 2)))]
    tail = draw(st.sampled_from([None, "BYOLTransform0", "BYOLTransform1", "MUGSStrongLocalTransform"]))
    members = leaves + ([{"k": "pipeline", "name": tail}] if tail else [])
    if not members:
        members = [draw(treg.leaf_spec("KDRandAugmentCustom"))]
    return {"k": "compose", "m": members}


def _wrap(ts):
    return st.fixed_dictionaries({"t": ts, "fs": st.lists(FACTORS, min_size=1, max_size=5), "fg": st.tuples(FACTORS, FACTORS).map(list),
                                  "key": st.integers(0, 50), "clone_at": st.integers(0, 4),
                                  "clone_how": st.sampled_from([None, None, "deepcopy", "pickle"]), "factory": st.booleans()})


def _leaf_facet(name):
    return Facet("leaf:" + name, check, strategy=lambda tier, n=name: _wrap(treg.leaf_spec(n).filter(_positive_p).map(_rot_fix)),
                 budget={"quick": 150, "thorough": 3000}, shards={"quick": 1, "thorough": 2},
                 min_nontrivial={"quick": 0, "thorough": 0}, case_timeout=120)


SCHED = st.fixed_dictionaries({"W": st.integers(1, 4), "B": st.integers(1, 5), "T": st.integers(1, 24),
                               "budget": st.sampled_from(["updates", "samples", "epochs"]), "epochs": st.integers(1, 4),
                               "world": st.integers(1, 3), "drop_last": st.booleans(), "extra": st.integers(0, 9),
                               "schedule": st.sampled_from(["linear", "cosine", "lindec", "const:0", "const:0.0", "const:0.5", "const:1"]), "nest": st.booleans(),
                               "shared": st.booleans(), "peek": st.sampled_from([0, 0, 1, 2, 5])})

FACETS = [_leaf_facet(n) for n in SCALABLE] + [
    Facet("compositions", check, strategy=lambda tier: _wrap(scal_tspec(2)),
          budget={"quick": 2400, "thorough": 12000}, shards={"quick": 6, "thorough": 12},
          min_nontrivial={"quick": 150, "thorough": 2000}, case_timeout=120),
    Facet("pil-compositions", check, strategy=lambda tier: _wrap(pil_composition()).map(lambda s: dict(s, fam="pipeline")),
          budget={"quick": 600, "thorough": 2500}, shards={"quick": 4, "thorough": 8},
          min_nontrivial={"quick": 50, "thorough": 500}, case_timeout=300),
    Facet("scheduled-simulated-workers", guarded("scheduled", check_scheduled_sim), strategy=lambda tier: SCHED,
          budget={"quick": 600, "thorough": 8000}, shards={"quick": 2, "thorough": 6}, min_nontrivial={"quick": 150, "thorough": 1500}),
    Facet("scheduled-real-loader", check_scheduled_real,
          strategy=lambda tier: st.fixed_dictionaries({"W": st.integers(1, 3), "B": st.integers(1, 4), "T": st.integers(1, 10),
                                                       "schedule": st.sampled_from(["linear", "cosine"])}),
          budget={"quick": 12, "thorough": 120}, shards={"quick": 4, "thorough": 12}, min_nontrivial={"quick": 4, "thorough": 40},
          case_timeout=300),
]
