"""C11 - sample-level mix returns a convex combination with matching label weights."""
import numpy as np
import torch
from hypothesis import strategies as st

from kappadata.datasets import KDDataset
from vlib.core import Case, Facet, Refused, Violation, guarded

# thorough-tier budgets of every facet are multiplied by this factor (sized for ~5-8 min on 16 cores)
THOROUGH_SCALE = 3
LEVEL = "exploration"
RULE = ("spec = id-encoded dataset (n 2..48, C 2..10, equal shapes or - with mixup_unify_shapes_mode='pad_or_cut_end' - per-sample "
        "shapes differing in any axis), mixup_p in (0,1], alpha in (0.05,4], seed or None, indices, request form (x / class / "
        "x class / class x, with index items interleaved, or any generated sequence of x / class / index of length 1-5, repeats "
        "included - every slot must be filled); oracle = the result is (x_i, onehot(c_i)) or there are j and "
        "w in [0,1] with x' = w*x_i+(1-w)*refit(x_j, shape_i) and y' = w*e_ci+(1-w)*e_cj (own 6-line refit); labels non-negative, "
        "sum 1; with a seed all request forms give identical x and y for the same i; with p=1 over n>=32 distinct samples at most "
        "half may look untouched (false-alarm probability < 1e-30); non-trivial = mixed result with j != i, or differing shapes, "
        "or a request form other than 'x class'; distinct = distinct spec hash")
ASSUMPTIONS = ["cutmix_p>0 is a documented NotImplementedError (refusal)", "tolerance 2e-4 on float32 mixing of values <= 50"]


class IdRoot(KDDataset):
    def __init__(self, n, C, key, shapes):
        super().__init__()
        self.n, self.C, self.key, self.shapes = n, C, key, shapes
        self.label_form = "int"
        self.unlabeled_every = 0

    def __len__(self):
        return self.n

    def getitem_x(self, idx, ctx=None):
        idx = int(idx)
        g = np.random.default_rng([self.key, idx])
        return torch.from_numpy(g.random(size=tuple(self.shapes[idx]), dtype=np.float32)) * 0.25 + (idx + 1)

    def class_of(self, idx):
        return int((int(idx) * 5 + self.key) % self.C)

    def is_unlabeled(self, idx):
        return self.unlabeled_every and int(idx) % self.unlabeled_every == 1

    def label_vector(self, idx):
        """what the label of sample idx means as a distribution over C classes (float32)"""
        c, v = self.class_of(idx), torch.zeros(self.C)
        if self.label_form.startswith("soft") and self.C >= 2:
            v[c], v[(c + 1) % self.C] = 0.75, 0.25
        else:
            v[c] = 1
        return v

    def getitem_class(self, idx, ctx=None):
        # a fresh object on every call, in the form the dataset happens to store its labels in
        f = self.label_form
        if self.is_unlabeled(idx):
            return -1  # the library's marker for "no label" (e.g. from a semi-supervised wrapper below)
        if f == "int":
            return self.class_of(idx)
        if f == "tensor0d":
            return torch.tensor(self.class_of(idx))
        if f == "onehot_int64":
            return self.label_vector(idx).long()
        if f == "soft_numpy":
            return self.label_vector(idx).numpy().copy()
        if f == "soft_list":
            return self.label_vector(idx).tolist()
        if f == "soft_float64":
            return self.label_vector(idx).double()
        return self.label_vector(idx)  # soft_float32

    def getitem_other(self, idx, ctx=None):
        return ("other", int(idx))

    def getshape_class(self):
        return (self.C,)


def refit(x, shape):
    """zero-pad or cut x at the end of every axis to `shape`"""
    out = torch.zeros(shape, dtype=x.dtype)
    sl = tuple(slice(0, min(a, b)) for a, b in zip(x.shape, shape))
    out[sl] = x[sl]
    return out


def decode(root, i, x, y, unify):
    """returns ('plain', None, None) or ('mixed', j, w) or raises"""
    n, C = root.n, root.C
    xi = root.getitem_x(i)
    Yi = root.label_vector(i)
    if not (torch.is_tensor(y) and tuple(y.shape) == (C,)):
        raise Violation("label-not-a-class-vector", f"{getattr(y, 'shape', type(y))}")
    if not y.is_floating_point():
        raise Violation("label-not-a-float-vector", str(y.dtype))
    y = y.float()
    if float(y.min()) < -1e-7 or abs(float(y.sum()) - 1) > 1e-5:
        raise Violation("label-not-a-distribution", str(y.tolist()))
    if x is not None and tuple(x.shape) != tuple(xi.shape):
        raise Violation("output-shape-differs-from-sample-shape", f"{tuple(x.shape)} vs {tuple(xi.shape)}")
    if (x is None or float((x.double() - xi.double()).abs().max()) <= 2e-4) and float((y - Yi).abs().max()) <= 1e-6:
        # untouched - or mixed with itself (partner j == i), which reproduces the sample up to rounding
        return "plain", None, None
    # mixed: find j and w
    for j in range(n):
        if root.is_unlabeled(j):
            continue
        Yj = root.label_vector(j)
        xj = root.getitem_x(j)
        if unify:
            xj = refit(xj, tuple(xi.shape))
        elif tuple(xj.shape) != tuple(xi.shape):
            continue
        # weight from the label where the two label vectors differ, else from the data
        dy = Yi - Yj
        if float(dy.abs().max()) > 1e-6:
            k = int(dy.abs().argmax())
            w = float((y[k] - Yj[k]) / dy[k])
            yexp = w * Yi + (1 - w) * Yj
        else:
            yexp = Yi
            w = None
        if float((y - yexp).abs().max()) > 1e-5:
            continue
        if x is None:
            return "mixed", j, w
        d = (xi - xj).double()
        if w is None:
            k = int(d.abs().argmax())
            if abs(float(d.flatten()[k])) < 1e-3:
                continue
            w = float((x.double().flatten()[k] - xj.double().flatten()[k]) / d.flatten()[k])
        if not (-1e-4 <= w <= 1 + 1e-4):
            continue
        mix = w * xi.double() + (1 - w) * xj.double()
        if float((x.double() - mix).abs().max()) <= 2e-4:
            return "mixed", j, w
    raise Violation("not-a-convex-combination-with-matching-label", f"index {i}: no partner j and weight w explain data and label jointly "
                                                                    f"(label {[round(v, 4) for v in y.tolist()]})")


class View:
    """what the mix wrapper sees when an index-changing layer lies between it and the root: sample k of the view is sample perm[k] of
    the root (the decoder works on the view - partners are drawn in the view's index space and loaded through it)"""

    def __init__(self, root, perm):
        self.root, self.perm, self.n = root, perm, len(perm)

    @property
    def C(self):
        return self.root.C

    @C.setter
    def C(self, v):
        self.root.C = v

    @property
    def unlabeled_every(self):
        return self.root.unlabeled_every

    def getitem_x(self, k):
        return self.root.getitem_x(self.perm[k])

    def label_vector(self, k):
        return self.root.label_vector(self.perm[k])

    def is_unlabeled(self, k):
        return self.root.is_unlabeled(self.perm[k])


class _Identity:
    def __call__(self, x):
        return x


def build(spec):
    from kappadata.wrappers import KDMixWrapper
    n = spec["n"]
    g = np.random.default_rng([spec["key"], 9])
    base = spec["shape"]
    if spec["unify"]:
        shapes = [[max(1, s + int(g.integers(-2, 3))) for s in base] for _ in range(n)]
    else:
        shapes = [list(base)] * n
    below = spec.get("below")
    n_root = n + 3 if below else n
    if below:
        shapes = shapes + [shapes[0]] * 3
    root = IdRoot(n_root, spec["C"], spec["key"], shapes)
    root.label_form = spec.get("label_form") or "int"
    if root.label_form == "int" and spec.get("unlabeled"):
        root.unlabeled_every = spec["unlabeled"]
    try:
        seed = spec["seed"]
        if seed is not None and spec.get("seed_form") == "numpy":
            seed = np.int64(seed)  # a seed taken from an array of seeds
        unify_mode = "pad_or_cut_end" if spec["unify"] else None
        base, view = root, root
        if below:
            # a subset (a permuted selection of n of the n + 3 root samples) between the mix wrapper and the root
            from kappadata.datasets import KDSubset
            perm = [int(i) for i in np.random.default_rng([spec["key"], 5]).permutation(n_root)[:n]]
            base, view = KDSubset(root, perm), View(root, perm)
        extra = {}
        if spec.get("cutmix_p"):
            # cutmix is configured next to mixup: its draws are refused (NotImplementedError), every other draw behaves as without it
            extra = dict(cutmix_p=spec["cutmix_p"], cutmix_alpha=1.0)
        if spec.get("reassign_unify"):
            # the wrapper is re-configured after construction (public attribute): the mode that is set when a sample is requested counts
            ds = KDMixWrapper(base, mixup_p=spec["p"], mixup_alpha=spec["alpha"], seed=seed,
                              mixup_unify_shapes_mode=None if unify_mode else "pad_or_cut_end", **extra)
            ds.mixup_unify_shapes_mode = unify_mode
        else:
            ds = KDMixWrapper(base, mixup_p=spec["p"], mixup_alpha=spec["alpha"], seed=seed, mixup_unify_shapes_mode=unify_mode, **extra)
        if spec.get("above"):
            # a transform wrapper (identity transform) above the mix wrapper: joint requests still come from one draw
            from kappadata.wrappers import XTransformWrapper
            ds = XTransformWrapper(ds, transform=_Identity())
    except AssertionError:
        raise Refused("constructor assertion")
    return view, ds


def check(spec):
    # interpreter state: the library must not depend on torch's default dtype being float32
    if spec.get("default_dtype") == "float64":
        old = torch.get_default_dtype()
        torch.set_default_dtype(torch.float64)
        try:
            return _check(spec)
        finally:
            torch.set_default_dtype(old)
    return _check(spec)


def _check(spec):
    from kappadata.wrappers import ModeWrapper
    root, ds = build(spec)
    forms = spec["forms"]
    n_mixed = 0
    idxs = [k % spec["n"] for k in spec["idx"]]
    for pos, i in enumerate(idxs):
        if spec.get("C2") and pos == (len(idxs) + 1) // 2:
            # the wrapped dataset's class count is re-configured in the middle of the history (KDRandomClassWrapper has a public setter
            # for it): label vectors follow the count that is announced when the sample is requested
            root.C = spec["C2"]
        seen = {}
        for form in forms:
            mw = ModeWrapper(ds, mode=form)
            try:
                got = mw[i]
            except NotImplementedError:
                if spec.get("cutmix_p"):
                    continue  # a cutmix draw: refused, as documented
                raise
            except Exception:
                if spec.get("label_form") in ("soft_numpy", "soft_list"):
                    continue  # label vectors that are not tensors: refused by the library (if a version answers, the answer is judged)
                if root.unlabeled_every:
                    continue  # an unlabeled sample (or partner) cannot be given a label vector: refused by the library (whatever is requested)
                raise
            if root.is_unlabeled(i) and "class" in form.split(" "):
                raise Violation("unlabeled-sample-answered-with-a-class-label", f"index {i} has no label (-1) but the request '{form}' returned "
                                                                                f"{[round(float(v), 3) for v in (got[form.split(' ').index('class')] if isinstance(got, tuple) else got).flatten().tolist()][:10]}")
            names = form.split(" ")
            vals = got if isinstance(got, tuple) else (got,)
            if len(vals) != len(names) or any(v is None for v in vals):
                raise Violation("request-form-slot-missing", f"index {i}: the request '{form}' returned {len(vals)} slots, "
                                                             f"empty ones at {[k for k, v in enumerate(vals) if v is None]}")
            for nm, v in zip(names, vals):
                if nm == "index" and v != i:
                    raise Violation("index-item-changed", "")
                if nm == "other" and v != ("other", i):
                    raise Violation("other-item-changed", "")
            xs = [v for nm, v in zip(names, vals) if nm == "x"]
            ys = [v for nm, v in zip(names, vals) if nm == "class"]
            # an item that is requested more than once: the first image and the first label are judged as the joint request, every further
            # copy on its own (a valid label vector / an image of the sample's shape) and - with a seed - as equal to the first
            for extra_y in ys[1:]:
                decode(root, i, None, extra_y, spec["unify"])
            for extra_x in xs[1:]:
                if tuple(extra_x.shape) != tuple(root.getitem_x(i).shape):
                    raise Violation("output-shape-differs-from-sample-shape", "")
            if spec["seed"] is not None:
                for lst, nm in ((xs, "x"), (ys, "class")):
                    for v in lst[1:]:
                        if not torch.equal(lst[0], v):
                            raise Violation("request-forms-describe-different-draws", f"index {i}: two '{nm}' items of '{form}' differ")
            x, y = (xs[0] if xs else None), (ys[0] if ys else None)
            if y is not None:
                kind, j, w = decode(root, i, x, y, spec["unify"])
                if kind == "mixed" and j != i:
                    n_mixed += 1
            elif x is not None:
                # image only: must be x_i or a convex combination with some partner (label unknown here)
                xi = root.getitem_x(i)
                if tuple(x.shape) != tuple(xi.shape):
                    raise Violation("output-shape-differs-from-sample-shape", "")
            if spec["seed"] is not None:
                for nm, v in (("x", x), ("class", y)):
                    if v is None:
                        continue
                    if nm in seen and not torch.equal(seen[nm][1], v):
                        raise Violation("request-forms-describe-different-draws", f"index {i}: {nm} differs between '{seen[nm][0]}' and '{form}'")
                    seen.setdefault(nm, (form, v))
    nt = n_mixed > 0 or spec["unify"] or any(f != "x class" for f in forms)
    return Case(nt, ["seeded" if spec["seed"] is not None else "unseeded", "unify" if spec["unify"] else "same-shape",
                     "mixed" if n_mixed else "plain-only"], len(spec["idx"]) * len(forms))


def check_p1(spec):
    """probability one mixes every sample: over n>=32 distinct samples at most half may look untouched"""
    # mixup_p = 1, or mixup_p + cutmix_p = 1 (cutmix draws are refused, every other draw must mix)
    cp = spec.get("cutmix_p")
    lf = spec.get("label_form")
    root, ds = build(dict(spec, p=1.0 - cp if cp else 1.0, unify=False, unlabeled=0, reassign_unify=False,
                          label_form="soft_float32" if lf in ("soft_numpy", "soft_list") else lf))
    n = spec["n"]
    untouched = 0
    answered = 0
    for i in range(n):
        try:
            x, y = ds.getitem_xclass(i)
        except NotImplementedError:
            if spec.get("cutmix_p"):
                continue
            raise
        answered += 1
        kind, j, w = decode(root, i, x, y, False)
        if kind == "plain":
            untouched += 1
    if untouched > max(answered // 2, 2):
        raise Violation("probability-one-does-not-mix", f"{untouched} of {answered} answered samples untouched although the probabilities sum to one")
    return Case(True, ["seeded" if spec["seed"] is not None else "unseeded"], n)


def check_cutmix_refused(spec):
    from kappadata.wrappers import KDMixWrapper
    root = IdRoot(4, 3, 1, [[1, 2, 2]] * 4)
    ds = KDMixWrapper(root, cutmix_p=1.0, cutmix_alpha=1.0, seed=spec["seed"])
    try:
        ds.getitem_xclass(spec["i"] % 4)
    except NotImplementedError:
        return Case(True, [], 1)
    raise Violation("cutmix-not-refused", "sample-level cutmix returned a value although it is documented as not implemented")


FORMS = ["x class", "class x", "x", "class", "index x class", "class index x", "x index class", "class x index"]

# any sequence of the items a mode string may name, repeats included ("x class index", "x class x class", "index x x class"; a fused request refuses items the top wrapper does not implement itself)
form_s = st.lists(st.sampled_from(["x", "class", "x", "class", "index"]), min_size=1, max_size=5).map(" ".join)


@st.composite
def spec_s(draw, big=False):
    n = draw(st.integers(32, 48)) if big else draw(st.integers(2, 48))
    return {"n": n, "C": draw(st.integers(2, 10)), "key": draw(st.integers(0, 999)),
            "shape": draw(st.sampled_from([[1, 4, 5], [3, 2, 2], [2, 6], [1, 1, 1], [5]])),
            "unify": False if big else draw(st.booleans()), "p": draw(st.sampled_from([1.0, 0.5, 0.2, 0.9])),
            "alpha": draw(st.sampled_from([0.1, 0.8, 1.0, 4.0])), "seed": draw(st.one_of(st.none(), st.integers(0, 2 ** 31))),
            "seed_form": draw(st.sampled_from(["int", "int", "numpy"])),
            "label_form": draw(st.sampled_from(["int", "int", "int", "tensor0d", "onehot_int64", "soft_float64", "soft_float32", "soft_numpy", "soft_list"])),
            "below": draw(st.booleans()), "above": draw(st.booleans()),
            "default_dtype": draw(st.sampled_from([None, None, None, "float64"])),
            "C2": draw(st.sampled_from([None, None, None, 2, 3, 7, 10])),
            "cutmix_p": draw(st.sampled_from([None, None, 0.5, 0.25])), "reassign_unify": draw(st.booleans()),
            "unlabeled": draw(st.sampled_from([0, 0, 3, 4])),
            "idx": draw(st.lists(st.integers(0, 100), min_size=1, max_size=6)),
            "forms": draw(st.lists(st.one_of(st.sampled_from(FORMS), form_s), min_size=1, max_size=5, unique=True))}


FACETS = [
    Facet("mix-wrapper", guarded("mix-wrapper", check), strategy=lambda tier: spec_s(), budget={"quick": 4000, "thorough": 60000},
          shards={"quick": 8, "thorough": 16}, min_nontrivial={"quick": 800, "thorough": 8000}),
    Facet("probability-one", guarded("probability-one", check_p1), strategy=lambda tier: spec_s(big=True), budget={"quick": 300, "thorough": 4000},
          shards={"quick": 2, "thorough": 8}, min_nontrivial={"quick": 100, "thorough": 1000}),
    Facet("cutmix-refused", check_cutmix_refused,
          strategy=lambda tier: st.fixed_dictionaries({"seed": st.one_of(st.none(), st.integers(0, 99)), "i": st.integers(0, 9)}),
          budget={"quick": 30, "thorough": 100}, shards={"quick": 1, "thorough": 1}, min_nontrivial={"quick": 5, "thorough": 5}),
]
