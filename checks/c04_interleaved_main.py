"""C04 - interleaved scheduler: main stream, batch cutting and stopping point are exact."""
import itertools

from hypothesis import strategies as st

from vlib import interleaved_model as im
from vlib.core import Case, Facet, Refused, Violation

# thorough-tier budgets of every facet are multiplied by this factor (sized for ~5-8 min on 16 cores)
THOROUGH_SCALE = 5
LEVEL = "exploration"
RULE = ("specs = (N, B<=N, drop_last, drop_last_batch_size multiple of B, budget kind/value, main sampler kind, 0-3 "
        "interleaved configs) drawn by Hypothesis (facet 'random') or enumerated completely for N<=7 (facet "
        "'small-exhaustive'); oracle = statement-derived reference model run on an independent sampler instance; "
        "non-trivial = not (N in {10,15,100} and B=4) and at least one of: N%B==0 without drop_last, B=1, B=N, updates "
        "budget, samples budget with S%B!=0, drop_last_batch_size set, >=1 interleaved config; distinct = distinct spec hash")
ASSUMPTIONS = ["main sampler yields exactly len(sampler) indices per iteration (stated in C04)",
               "the scheduler's stream is observed through list(sampler), sampler.batch_sampler and sampler.dataset[...]"]


def nontrivial(spec):
    N, B = spec["N"], spec["B"]
    if N in (10, 15, 100) and B == 4:
        return False
    return ((N % B == 0 and not spec["drop_last"]) or B == 1 or B == N or spec["budget_kind"] == "updates"
            or (spec["budget_kind"] == "samples" and spec["budget"] % B != 0) or spec.get("dlbs") is not None
            or len(spec["configs"]) > 0)


def check(spec):
    ref = im.reference_run(spec)
    try:
        sampler, main = im.build_impl(spec)
    except AssertionError as e:
        raise Refused("constructor assertion")
    n_updates = sum(1 for f, s, _ in ref["stream"] if s == 0 and f)
    bound = len(ref["stream"]) + (n_updates + 2) * sum(c["size"] for c in spec["configs"]) + 64
    got = list(itertools.islice(iter(sampler), bound + 1))
    if len(got) > bound:
        raise Violation("does-not-end", f"stream longer than {bound} items (model: {len(ref['stream'])})")
    N = im.main_size(spec)  # global indices below the main dataset's size are main indices
    got_main = [(bool(f), int(g)) for f, g in got if g < N]
    for f, g in got:
        if g < N:
            src, tag, local = im.resolve(sampler, g)
            if (src, tag, local) != (0, 0, g):
                raise Violation("main-index-resolves-wrong", f"global {g} -> {(src, tag, local)}")
    ref_main = [(f, i) for f, s, i in ref["stream"] if s == 0]
    gi, ri = [g for _, g in got_main], [i for _, i in ref_main]
    if gi != ri:
        if gi == ri[:len(gi)]:
            raise Violation("stops-early", f"main part has {len(gi)} indices, model {len(ri)}")
        if ri == gi[:len(ri)]:
            raise Violation("stops-late", f"main part has {len(gi)} indices, model {len(ri)}")
        raise Violation("main-indices-differ", f"got {gi[:24]} expected {ri[:24]}")
    if got_main != ref_main:
        k = next(k for k in range(len(ri)) if got_main[k] != ref_main[k])
        raise Violation("batch-cutting-differs", f"flag at main position {k}: got {got_main[k]} expected {ref_main[k]}")
    if got and not got[-1][0]:
        raise Violation("ends-inside-batch", "last yielded item has no batch-end flag")
    if spec["main_kind"] == "epoch":
        ann = [e for k, e in main.log if k == "set_epoch"]
        if ann != ref["set_epochs"]:
            raise Violation("set-epoch-log-differs", f"announced {ann} expected {ref['set_epochs']}")
        # every iteration must be preceded by its own announcement
        last = None
        for k, e in main.log:
            if k == "set_epoch":
                last = e
            elif last is None:
                raise Violation("iter-before-set-epoch", str(main.log[:6]))
    # the stream is defined by the announced epochs, not by what the sampler objects went through before: a second pass over the
    # very same scheduler object - with the main sampler's epoch touched from outside in between - yields the same stream
    if spec["main_kind"] in ("seq", "kd_seq", "epoch", "kd_dist", "kd_dist2"):
        if hasattr(main, "set_epoch"):
            main.set_epoch(17)
        mark = len(main.log) if spec["main_kind"] == "epoch" else None
        again = list(itertools.islice(iter(sampler), bound + 1))
        again_main = [(bool(f), int(g)) for f, g in again if g < N]
        if again_main != ref_main:
            raise Violation("second-pass-over-the-same-scheduler-differs", f"first {len(ref_main)} main items, second pass {len(again_main)}; "
                                                                             f"first difference at {next((k for k in range(min(len(again_main), len(ref_main))) if again_main[k] != ref_main[k]), 'length')}")
        if mark is not None:
            ann2 = [e for k, e in main.log[mark:] if k == "set_epoch"]
            if ann2 != ref["set_epochs"]:
                raise Violation("set-epoch-log-differs:second-pass", f"announced {ann2} expected {ref['set_epochs']}")
        # two live iterators over one scheduler object (a dry run over the batch sampler while a pass is suspended; zip(s, s)): the
        # progress of a pass belongs to that pass
        if not any(c.get("form") == "growing" for c in spec["configs"]):
            sampler3, _ = im.build_impl(spec)
            it_a = iter(sampler3)
            cut = (spec["main_key"] % max(1, len(ref["stream"]))) if ref["stream"] else 0
            part = list(itertools.islice(it_a, cut))
            dry = list(itertools.islice(iter(sampler3), bound + 1))
            part += list(itertools.islice(it_a, bound + 1))
            for name, run in (("suspended-pass", part), ("pass-run-in-between", dry)):
                run_main = [(bool(f), int(g)) for f, g in run if g < N]
                if run_main != ref_main:
                    raise Violation(f"interleaved-iterators-over-one-scheduler:{name}",
                                    f"a pass suspended after {cut} items, a complete pass in between: {name} has {len(run_main)} main items "
                                    f"(model {len(ref_main)}), first difference at "
                                    f"{next((k for k in range(min(len(run_main), len(ref_main))) if run_main[k] != ref_main[k]), 'length')}")
    # batch sampler view (fresh instance: samplers with generators advance per iteration)
    sampler2, _ = im.build_impl(spec)
    batches = list(itertools.islice(iter(sampler2.batch_sampler), bound + 1))
    main_batches = [b for b in batches if b and b[0] < N]
    exp, cur = [], []
    for f, i in ref_main:
        cur.append(i)
        if f:
            exp.append(cur)
            cur = []
    if spec["main_kind"] != "kd_random" and main_batches != exp:
        raise Violation("batch-sampler-differs", f"got {main_batches[:6]} expected {exp[:6]}")
    for b in batches:
        if any((x < N) != (b[0] < N) for x in b):
            raise Violation("batch-mixes-main-and-side", str(b))
    labels = [spec["budget_kind"], "dl" if spec["drop_last"] else "nodl", spec["main_kind"]]
    if spec.get("dlbs"):
        labels.append("dlbs")
    if spec["configs"]:
        labels.append("with-configs")
    return Case(nontrivial(spec), labels)


def enumerate_small(tier):
    maxn = 6 if tier == "quick" else 8
    for N in range(1, maxn + 1):
        for B in range(1, N + 1):
            for drop_last in (False, True):
                dl = [None]
                if drop_last:
                    dl += [m * B for m in range(1, N // B + 1)]
                for dlbs in dl:
                    spe = (N // (dlbs or B)) * (dlbs or B) if drop_last else N
                    upe = -(-spe // B)
                    for kind, top in (("epochs", 3), ("updates", 3 * upe), ("samples", 3 * spe)):
                        for budget in range(1, top + 1):
                            for cfgs in ([], [dict(n_u=2, size=3, batch_size=2, key=None)]):
                                yield dict(N=N, B=B, drop_last=drop_last, dlbs=dlbs, budget_kind=kind, budget=budget,
                                           main_kind="epoch", main_key=N * 31 + B, configs=cfgs)


FACETS = [
    Facet("random", check, strategy=lambda tier: im.full_spec(max_configs=3, allow_zero_budget=False),
          budget={"quick": 4000, "thorough": 80000}, shards={"quick": 8, "thorough": 16},
          min_nontrivial={"quick": 500, "thorough": 5000}),
    Facet("small-exhaustive", check, enumerate=enumerate_small, exhaustive=True,
          shards={"quick": 8, "thorough": 16}, min_nontrivial={"quick": 500, "thorough": 2000}),
]
