"""C07 - an injected seed fully determines an augmentation, and nothing else does."""
import random

import numpy as np
import torch
from hypothesis import strategies as st

from vlib import treg
from vlib.core import Case, Facet, Refused, Violation

# thorough-tier budgets of every facet are multiplied by this factor (sized for ~5-8 min on 16 cores)
THOROUGH_SCALE = 2
LEVEL = "exploration"
RULE = ("spec = transform spec from the registry (every shipped stochastic leaf class with constructor-accepted parameters, "
        "compositions up to depth 3 of compose / random-apply / patchwise / scheduled, ready-made kappadata.common pipelines) + "
        "input key + seed s + m<=5 calls + two different global RNG states + a pre-injection call history h<=3; oracle = two "
        "independently built instances injected with default_rng(s) give pairwise equal outputs and ctx dicts while the global "
        "states differ, re-injection replays the sequence, the numpy/torch/random global states are bit-identical before and "
        "after the calls, set_rng itself does not raise; non-trivial = composite spec, leaf owning a member transform, or "
        "pipeline; distinct = distinct spec hash")
ASSUMPTIONS = ["inputs are cloned per call (several shipped transforms work in place by design)",
               "KDTransformChoice (unimportable), KDThreeAugment(blur_kind='tv'), MAEFinetuneTransform and BYOLTransform(norm=<str>) "
               "cannot be constructed on this tree and are outside the domain"]


def _set_globals(k):
    np.random.seed(k % (2 ** 32))
    torch.manual_seed(k)
    random.seed(k)


def _global_snapshot():
    return (repr(np.random.get_state()), torch.get_rng_state().clone(), random.getstate())


def _globals_equal(a, b):
    return a[0] == b[0] and torch.equal(a[1], b[1]) and a[2] == b[2]


def _run(tr, inputs, use_ctx=True):
    outs, ctxs = [], []
    for x in inputs:
        ctx = {} if use_ctx else None
        try:
            y = tr(treg.clone_input(x), ctx)
        except ValueError as e:
            if "crop size" in str(e):
                raise Refused("crop larger than image")
            raise
        except RuntimeError as e:
            if "clone() the tensor" in str(e):
                raise Refused("in-place member after a member that returns an expanded view")
            raise
        outs.append(y)
        ctxs.append(ctx)
    return outs, ctxs


def _first_unreached(a, b):
    ga, gb = treg.walk_generators(a), treg.walk_generators(b)
    for p in sorted(ga):
        if p in gb and treg.gen_state(ga[p]) != treg.gen_state(gb[p]):
            return p
    return None


def check(spec):
    t = spec["t"]
    fam = spec.get("fam") or treg.family(t)
    s, m, h = spec["seed"], spec["m"], spec["h"]
    inputs = [treg.make_input(fam, spec["key"] + i) for i in range(m)]
    def _build():
        try:
            return _build0()
        except Exception as e:
            if spec.get("factory") and not isinstance(e, (Violation, Refused)):
                # the same description built fine without the factory (facets without it): the factory consumed / altered what it was given
                raise Violation(f"factory-construction-raises:{type(e).__name__}", f"{t}: {e!r}"[:300])
            raise

    def _build0():
        if spec.get("late") and t["k"] == "compose" and len(t["m"]) >= 2:
            # the composition is assembled step by step: the last member is appended to the public list after construction
            tr = treg.build({"k": "compose", "m": t["m"][:-1]}, factory=bool(spec.get("factory")))
            if spec["late"] == 2:
                # ... and a generator had already been injected once (a warm-up / sanity run) before the member was added
                tr.set_rng(np.random.default_rng(12345))
            tr.transforms.append(treg.build(t["m"][-1], factory=bool(spec.get("factory"))))
            return tr
        # factory: the transform is described as configuration files describe it (kind-dicts, plain lists) and resolved by the factory
        return treg.build(t, factory=bool(spec.get("factory")))
    # instance A: built under G1, used h times before the seed is injected
    _set_globals(spec["g1"])
    A = _build()
    if h:
        try:
            _run(A, inputs[:1] * h)
        except Refused:
            raise
    # instance B: built under G2
    _set_globals(spec["g2"])
    B = _build()
    keep_alive = None
    if spec.get("b_via"):
        # the second instance is a copy of a constructed one (what KDMultiViewWrapper, the factory and spawn-started workers do): it is
        # the copy that gets the seed, the original stays around untouched
        import copy
        import pickle
        keep_alive = B
        try:
            B = copy.deepcopy(keep_alive) if spec["b_via"] == "deepcopy" else pickle.loads(pickle.dumps(keep_alive))
        except (pickle.PicklingError, AttributeError, TypeError) as e:
            if spec["b_via"] == "deepcopy":
                raise
            B = keep_alive  # not picklable (local classes / lambdas inside third-party members): use the instance itself
    sig_name = "+".join(sorted(set(treg.leaf_names(t))))[:80]
    # optional strength history around the injection (same for both instances): the seed must still determine everything
    def _scale(f):
        if f is None:
            return
        for T in (A, B):
            if hasattr(T, "scale_strength"):
                try:
                    T.scale_strength(f)
                except AssertionError:
                    # KDRandomRotation asserts lb == ub; both instances are treated alike (a compose stops at the same member)
                    pass
    if spec.get("detour") is not None and spec.get("pre_scale") is not None and hasattr(A, "scale_strength"):
        # strength depends only on the last factor given: instance A takes a detour (e.g. through 0) before reaching the same factor
        try:
            A.scale_strength(spec["detour"])
        except AssertionError:
            pass
    _scale(spec.get("pre_scale"))
    try:
        A.set_rng(np.random.default_rng(s))
        B.set_rng(np.random.default_rng(s))
    except Exception as e:
        import traceback
        fr = traceback.extract_tb(e.__traceback__)[-1]
        raise Violation(f"set_rng-raises:{type(e).__name__}:{fr.filename.split('/')[-1]}", f"{t}: {e!r}"[:300])
    unreached = _first_unreached(A, B)
    _scale(spec.get("post_scale"))
    _set_globals(spec["g1"] + 17)
    before = _global_snapshot()
    try:
        outA, ctxA = _run(A, inputs)
    except Refused:
        raise
    mid = _global_snapshot()
    if not _globals_equal(before, mid):
        raise Violation(f"global-rng-consumed:{_culprit(t)}", f"{t}: a process-global RNG state changed during {m} calls")
    _set_globals(spec["g2"] + 91)
    outB, ctxB = _run(B, inputs)
    for i in range(m):
        if not treg.out_equal(outA[i], outB[i]):
            key = ("rng-not-reached:" + treg.owner_chain(A, unreached)) if unreached else _culprit(t)
            raise Violation(f"instances-disagree:{key}",
                            f"{t} seed {s} call {i}: {treg.digest(outA[i])} vs {treg.digest(outB[i])}")
        if not treg.out_equal(ctxA[i], ctxB[i]):
            key = ("rng-not-reached:" + treg.owner_chain(A, unreached)) if unreached else _culprit(t)
            raise Violation(f"ctx-disagrees:{key}", f"{t} call {i}: {ctxA[i]} vs {ctxB[i]}"[:300])
    # re-injecting the seed replays A's sequence (scheduled transforms legitimately depend on the call count only
    # after worker init; without it they are plain pass-throughs to the inner transform)
    A.set_rng(np.random.default_rng(s))
    outA2, ctxA2 = _run(A, inputs)
    for i in range(m):
        if not treg.out_equal(outA[i], outA2[i]) or not treg.out_equal(ctxA[i], ctxA2[i]):
            raise Violation(f"reinjection-does-not-replay:{_culprit(t)}", f"{t} call {i}")
    labels = [fam] + sorted(set(treg.leaf_names(t)))
    return Case(treg.is_composite(t), labels, 3 * m)


def _culprit(t):
    """coarse, stable root-cause key: the set of container kinds + leaf classes, smallest first after shrinking"""
    names = sorted(set(treg.leaf_names(t)))
    return "+".join(names)[:70]


# ------------------------------------------------------------------------------------------ strategies
def _wrap(tstrat):
    return st.fixed_dictionaries({"t": tstrat, "key": st.integers(0, 400), "seed": st.integers(0, 2 ** 32 - 1),
                                  "m": st.integers(1, 5), "h": st.integers(0, 3), "g1": st.integers(0, 2 ** 31),
                                  "g2": st.integers(0, 2 ** 31), "pre_scale": st.sampled_from([None, None, 0.0, 0.5, 1.0]), "detour": st.sampled_from([None, 0.0, 0.0, 0.3]),
                                  "post_scale": st.sampled_from([None, 1.0, 0.7]), "b_via": st.sampled_from([None, None, "deepcopy", "pickle"]),
                                  "late": st.sampled_from([0, 0, 1, 2]), "factory": st.booleans()})


@st.composite
def with_plain(draw):
    """compositions that mix library transforms with plain callables (torchvision transforms, lambdas), bare or wrapped by a
    random-apply / scheduled / outer composition: the injected generator must reach every library member"""
    inner = [draw(treg.img_composite(depth=1, allow_scheduled=False)) for _ in range(draw(st.integers(1, 2)))]
    inner.insert(draw(st.integers(0, len(inner))), {"k": "plain"})
    comp = {"k": "compose", "m": inner}
    outer = draw(st.sampled_from(["none", "random_apply", "scheduled", "compose", "random_apply+scheduled"]))
    if outer == "random_apply":
        return {"k": "random_apply", "p": draw(st.sampled_from([0.5, 1.0])), "t": comp}
    if outer == "scheduled":
        return {"k": "scheduled", "t": comp}
    if outer == "compose":
        return {"k": "compose", "m": [comp, draw(treg.img_composite(depth=1, allow_scheduled=False))]}
    if outer == "random_apply+scheduled":
        return {"k": "scheduled", "t": {"k": "random_apply", "p": 1.0, "t": comp}}
    return comp


_DESCS = {
    "noise-list": lambda: [{"kind": "kd_additive_gaussian_noise", "std": 1.0}],
    "noise-dict": lambda: {"kind": "kd_additive_gaussian_noise", "std": 1.0},
    "two-list": lambda: [{"kind": "kd_additive_uniform_noise", "magnitude": 0.5}, {"kind": "kd_random_horizontal_flip"}],
}


def check_apply_description(spec):
    """KDRandomApply handed a *description* (kind-dict / list, what configuration files hold) instead of a transform object: the pinned
    library refuses it when the member is first applied; a version that answers is judged like any other transform - equal injected
    seeds give equal outputs whatever the global generators hold, and the global generators are not consumed"""
    from kappadata.transforms import KDRandomApply
    inputs = [treg.make_input("img3", spec["key"] + i) for i in range(spec["m"])]
    outs = []
    for g in (spec["g1"], spec["g2"]):
        _set_globals(g)
        try:
            tr = KDRandomApply(transform=_DESCS[spec["desc"]](), p=spec["p"])
            tr.set_rng(np.random.default_rng(spec["seed"]))
        except Exception as e:
            raise Refused("description refused at construction: " + type(e).__name__)
        snap = _global_snapshot()
        try:
            o = [tr(treg.clone_input(x), {}) for x in inputs]
        except (TypeError, AssertionError, AttributeError, NotImplementedError) as e:
            raise Refused("description refused when applied: " + type(e).__name__)
        if not _globals_equal(snap, _global_snapshot()):
            raise Violation("global-rng-consumed:random-apply-over-description", f"{spec['desc']} p={spec['p']}")
        outs.append(o)
    for a, b in zip(*outs):
        if not torch.equal(a, b):
            raise Violation("same-seed-different-output:random-apply-over-description", f"{spec['desc']} p={spec['p']} seed {spec['seed']}")
    return Case(True, [spec["desc"]], 2 * len(inputs))


APPLY_DESC = st.fixed_dictionaries({"desc": st.sampled_from(sorted(_DESCS)), "p": st.sampled_from([1.0, 1.0, 0.7, 0.3]), "seed": st.integers(0, 2 ** 31),
                                    "g1": st.integers(0, 99), "g2": st.integers(100, 199), "key": st.integers(0, 50), "m": st.integers(1, 4)})


def _leaf_facet(name):
    return Facet("leaf:" + name, check, strategy=lambda tier, n=name: _wrap(treg.leaf_spec(n)),
                 budget={"quick": 200, "thorough": 1500}, shards={"quick": 1, "thorough": 2},
                 min_nontrivial={"quick": 0, "thorough": 0}, case_timeout=120)


def _pil_facet(name):
    return Facet("pil-input:" + name, check, strategy=lambda tier, n=name: _wrap(treg.leaf_spec(n)).map(lambda s: dict(s, fam="pil_any")),
                 budget={"quick": 100, "thorough": 600}, shards={"quick": 1, "thorough": 1},
                 min_nontrivial={"quick": 0, "thorough": 0}, case_timeout=120)


FACETS = [_leaf_facet(n) for n in treg.LEAVES] + [_pil_facet(n) for n in treg.PIL_OK]
FACETS += [
    Facet("composites", check, strategy=lambda tier: _wrap(treg.img_composite(depth=3)),
          budget={"quick": 2400, "thorough": 20000}, shards={"quick": 8, "thorough": 16},
          min_nontrivial={"quick": 300, "thorough": 3000}, case_timeout=120),
    Facet("composites-with-plain-members", check, strategy=lambda tier: _wrap(with_plain()),
          budget={"quick": 1200, "thorough": 6000}, shards={"quick": 6, "thorough": 8},
          min_nontrivial={"quick": 100, "thorough": 1000}, case_timeout=120),
    Facet("random-apply-over-description", check_apply_description, strategy=lambda tier: APPLY_DESC,
          budget={"quick": 200, "thorough": 1000}, shards={"quick": 1, "thorough": 1}, min_nontrivial={"quick": 0, "thorough": 0}, case_timeout=60),
    Facet("pipelines", check,
          strategy=lambda tier: _wrap(st.sampled_from(sorted(treg.PIPELINES)).map(lambda n: {"k": "pipeline", "name": n})),
          budget={"quick": 300, "thorough": 1500}, shards={"quick": 2, "thorough": 6},
          min_nontrivial={"quick": 50, "thorough": 300}, case_timeout=300),
]
