#!/usr/bin/env python3
"""writes /verif/MANIFEST.json from the registry below (one entry per claimed property)"""
import json
import os

HERE = os.path.dirname(os.path.dirname(os.path.abspath(__file__)))

SETUP = ("/venv/bin/python -c 'import hypothesis' 2>/dev/null || "
         "/venv/bin/pip install --no-index --find-links /opt/veriftools/wheels hypothesis")

TRUST = ("trusted base: CPython, torch/numpy/hypothesis as installed, the harness' spec->object builders and the "
         "reference model/oracle in checks/ (written from the property statement, cross-checked by seeded mutants); "
         "held = no disagreement on the generated cases, absence beyond them is not established")

# id -> (level, technique, text, design_ref, note)
REG = {
    "C01": ("exploration", "Hypothesis-generated (stack, mode, access history) + exhaustive mode permutations vs. per-item reference evaluation",
            "random dataset stacks x mode sequences (1-6 items incl. index and ctx.*, fused groups with per-call nonces) x access "
            "histories (int/negative/slice/list/iter/len), exhaustive permutations of <=4 of 5 items over 4 fused layouts, "
            "TorchWrapper, shipped XTransformWrapper(KDMixWrapper(seed)) and the static mode helpers; values, tuple/bare shape, "
            "exact ctx equality and joint-load consistency are compared with a reference evaluation of the stack",
            "DESIGN.md §3 C01", TRUST),
    "C02": ("exploration", "Hypothesis-generated recursive dataset stacks vs. index-map composition computed from the spec",
            "random stacks (depth<=5, deep facet <=8) of KDSubset / shipped subset wrappers / KDConcatDataset (balanced or not) / "
            "KDWrappers over token roots; every valid positive and negative index and three items compared with the composed map; "
            "len, getall_* vs per-sample, getall helper functions (list/ndarray/tensor roots, slow path), introspection and "
            "dispose on linear chains",
            "DESIGN.md §3 C02", TRUST),
    "C03": ("exploration", "Hypothesis-generated class layouts and boundary arguments vs. per-wrapper validity predicates + metamorphic partition law",
            "10 facets (one per wrapper): explicit class layouts incl. absent/single-sample classes, arguments on 0/1/non-integer "
            "boundaries; oracle per wrapper from its documentation (filter order, contiguity, permutation-ness, stable class order, "
            "per-class counts, round-robin copies, balance and even reuse), complementary ranges must partition the dataset, two "
            "builds under different global RNG states must agree, construction must return within a 300x margin",
            "DESIGN.md §3 C03", TRUST),
    "C04": ("exploration", "Hypothesis-generated geometries + bounded-exhaustive sweep vs. statement-derived reference model",
            "random search (4k quick / 80k thorough configs) plus complete enumeration of all geometries N<=6 (quick) / N<=8 "
            "(thorough) x B x drop_last x drop_last_batch_size x budget kind x budget<=3 epochs; each compared item-by-item "
            "with an independent reference scheduler: main indices, batch flags, set_epoch log, stopping point, termination bound",
            "DESIGN.md §3 C04", TRUST),
    "C05": ("exploration", "Hypothesis-generated schedules + bounded-exhaustive sweep vs. reference model; real DataLoader with tagging collators",
            "random search over geometries x 0-4 interleaved configs (all interval-kind subsets, sizes 0-7, own batch sizes, zero "
            "budgets), complete enumeration for N<=4/5 with all interval triples, and a DataLoader facet checking that every loaded "
            "batch is unmixed and collated by its own dataset's collator; compared item-by-item with the reference scheduler",
            "DESIGN.md §3 C05", TRUST),
    "C06": ("exploration", "metamorphic relation (resumed run == suffix of uninterrupted run) over Hypothesis-generated and exhaustively enumerated checkpoints",
            "for every epoch-boundary checkpoint strictly before the budget and every checkpoint form the resumed stream (flags, side "
            "passes, set_epoch announcements, stop) must equal the suffix of the reference run; refusals (NotImplementedError / "
            "assert) are counted; uninterrupted implementation run validated against the model in the same case",
            "DESIGN.md §3 C06", TRUST),
    "C07": ("exploration", "Hypothesis-generated transform specs: relation between two independently built instances with equal injected seeds",
            "one facet per shipped stochastic transform class (28), a composite facet (compose / random-apply / patchwise / scheduled, "
            "depth<=3) and the kappadata.common pipelines; two instances built under different global RNG states and call histories "
            "must agree on outputs and ctx after set_rng(default_rng(s)), re-injection must replay, global numpy/torch/random states "
            "must be untouched; failures are attributed to the first member generator the injected rng did not reach",
            "DESIGN.md §3 C07", TRUST),
    "C08": ("exploration", "model-based testing over Hypothesis-generated operation sequences (access / perturb globals / rebuild / DataLoader pass)",
            "seeded X/Y/source/target transform wrappers (registry transforms incl. composites), multi-view (1-3 configs), sample mix, "
            "semseg, ImageNet-minaug / BYOL / MUGS wrappers, placed on the root, under a wrapper, above or below a subset; model = "
            "first observed value per (index, item) incl. multi-view ctx; every later observation under perturbed global RNG state, "
            "on an independently rebuilt instance, through DataLoaders with 0/2/3 workers and through every request form (item "
            "alone / jointly / either order) must equal it; separate facet: different indices draw different streams",
            "DESIGN.md §3 C08", TRUST + "; real worker processes are sampled, not scheduled"),
    "C09": ("exploration", "Hypothesis-generated dataset stacks; simulated workers + generic object-graph walk over every reachable numpy Generator; real DataLoader workers as cross-check",
            "stacks of transform / multi-view / semseg / MUGS / BYOL wrappers, KDImageFolder, roots with registered collators (incl. "
            "I-JEPA), subsets, concats, ModeWrapper and the interleaved scheduler's dataset; after the worker-init hook every "
            "reachable generator must differ between two worker seeds, no state may occur in both workers, equal seeds reproduce; a "
            "second facet runs real 2-worker DataLoaders and compares per-generator digests taken inside the workers",
            "DESIGN.md §3 C09", TRUST + "; deepcopy models fork/pickle (validated by the real-worker facet)"),
    "C10": ("exploration", "Hypothesis-generated id-encoded batches; decode-and-verify oracle (partner and weight decoded from the mixed output, never replaying the collator's rng)",
            "all apply x lambda x shuffle modes, mixup/cutmix/both, binary and one-hot labels, every mode order with optional extra "
            "items, MAEFinetuneMixCollator; for each row the reported ctx weight must explain the label AND the image (mixup "
            "combination or one pasted box whose complement fraction is the weight) with one common partner, which must be the "
            "roll/flip partner or - for random - part of a bijection; rows sum to one, other items and ctx entries untouched",
            "DESIGN.md §3 C10", TRUST + "; tolerances stated in the evidence assumptions"),
    "C11": ("exploration", "Hypothesis-generated id-encoded datasets; decode-and-verify oracle + metamorphic relation between request forms",
            "sample-level mix over datasets with equal or differing sample shapes (own pad/cut reference), all request forms; result "
            "must be the untouched sample with a one-hot label or a convex combination with one partner whose label is mixed with "
            "the same weight; seeded wrappers must give identical x / class for every request form; p=1 must mix (bounded "
            "statistical oracle, false-alarm < 1e-30); sample-level cutmix must be refused",
            "DESIGN.md §3 C11", TRUST),
    "C12": ("exploration", "Hypothesis-generated sampler configurations; structural oracle over all ranks of one epoch (interleaving vs. the W=1 draw)",
            "DistributedSampler (shuffle, drop_last, num_repeats), ClassBalancedSampler, WeightedSampler for N 1-40 (incl. N<W), W 1-8: "
            "equal per-rank lengths == len(sampler); interleaved ranks equal the W=1 draw of the same (seed, epoch) up to trailing "
            "cut / cyclic wrap-around; reproducible for equal (seed, epoch); set_epoch changes shuffled draws (three-epoch rule); "
            "repeated augmentation = runs of num_repeats with pairwise different values (also kappadata RandomSampler)",
            "DESIGN.md §3 C12", TRUST),
    "C13": ("exploration", "Hypothesis-generated class layouts / splits / weights; validity predicates over the union of all ranks",
            "class-balanced: exactly samples_per_class per class over all ranks minus effective_length%W trailing entries, per-class "
            "reuse differs by <=1; semi: strict num_labeled/num_unlabeled alternation, every |pool|-block is a permutation of the "
            "pool, documented effective_length for all three modes, equal per-rank lengths, different streams per rank; weighted: "
            "no index twice per epoch, zero-weight indices never drawn, documented length; all indices valid",
            "DESIGN.md §3 C13", TRUST),
    "C14": ("exploration", "Hypothesis-generated image sizes/parameters: decode-and-verify on recorded context, coordinate-encoded image/mask pairs, inverse round-trips",
            "10 facets: random / two-random / random-resized / simple-random crop (tensor + PIL; output size, recorded box inside the "
            "padded input, torchvision functional re-application reproduces the output, recorded overlap), random erasing (one "
            "box), spec-augment (one band per axis, narrower than mask_param), every semseg transform and the "
            "SemsegTransformWrapper on coordinate-encoded image / index-encoded mask pairs, patchify/unpatchify (+shuffle) and "
            "norm/denorm inverses; exceptions raised inside kappadata for valid inputs are violations",
            "DESIGN.md §3 C14", TRUST),
    "C15": ("exploration", "Hypothesis-generated scalable transforms x factor sequences: algebraic laws over observed parameter ranges (attribute walk + spy generator); simulated and real workers for the scheduled transform",
            "16 leaf facets + KDComposeTransform nestings: R(1)==constructed, no compounding (sequence == fresh scaled once), "
            "monotone between R(0) and R(g), every requested range collapsed at 0 and identity where one exists; ranges observed "
            "both as reachable numeric attributes and as the (lo,hi)/(loc,scale) arguments requested from an injected spy "
            "generator; scheduled transform: W simulated round-robin workers over all three budget kinds and real DataLoaders - "
            "every sample of global batch b carries schedule(b,T) in ctx and in the wrapped transform",
            "DESIGN.md §3 C15", TRUST + "; full batches only (C15's stated domain)"),
    "C16": ("exploration", "Hypothesis-generated label layouts and wrapper arguments vs. coherence/range/purity/reproducibility predicates",
            "10 facets (one per label-rewriting wrapper): bulk accessor vs per-sample accessor, labels within getshape_class or -1, "
            "x/len/root labels untouched (roots returning a new list, their internal list, ndarray, tensor), equal labels under two "
            "global RNG states, documented mapping where one exists (all-gather permutation, pseudo-label argmax/threshold/top-k, "
            "overwrite table, semi count), encodings non-negative / sum 1 / argmax preserved",
            "DESIGN.md §3 C16", TRUST + "; encoding wrappers: coherence checked up to decoding (stated in DESIGN.md)"),
    "C17": ("exploration", "Hypothesis-generated collator configurations and batches; validity predicates on the emitted masks",
            "DINO: mask tensor shape/dtype, number of non-empty masks <= floor(batch*views*mask_prob), per-mask cell budget, batch and "
            "ctx untouched, no ctx -> nothing added; I-JEPA: index range, strict ordering, predictor masks are rectangles of one "
            "common size, common encoder length above min_keep, encoder/predictor disjointness under the statement's own "
            "precondition, block size independent of the rng seed at equal step counters, 1-4 consecutive calls; exceptions raised "
            "inside kappadata for valid configurations are violations",
            "DESIGN.md §3 C17", TRUST + "; I-JEPA domain restricted to configurations whose relaxation can terminate"),
    "C18": ("exploration", "Hypothesis-generated pipelines of commuting harness collators vs. a reference model of the collation protocol; padding validity predicate",
            "1-4 members with default_collate_mode before/after/None (pure tagging functions that record whether they were handed "
            "uncollated samples or the collated batch), modes of 1-4 items, with/without per-sample ctx, as KDComposeCollator / "
            "KDSingleCollator / KDSingleCollatorWrapper plus shipped mix / DINO collators: result == tags around one default "
            "collation, (batch, ctx) iff return_ctx, no ctx key lost or invented, batch collated at most once (counting wrapper), "
            "unsatisfiable orders never answered; PadSequencesCollator over length profiles, single/multi-item modes and both ctx paths",
            "DESIGN.md §3 C18", TRUST),
    "C19": ("exploration", "model-based testing over Hypothesis-generated access histories (get / get_many / clear / forked concurrent readers) with a load-counting base dataset",
            "payloads from a recursive strategy of picklable values, optional post-cache transform; after every step: observation "
            "deep-equals the wrapped dataset's (transformed) sample, transform calls == accesses, per-index load counter rises by "
            "exactly 1 on the first access between clears and by 0 afterwards, clear forces a reload, forked readers sharing the "
            "cache observe equal values and load each index at most once per reader",
            "DESIGN.md §3 C19", TRUST + "; reader-process interleavings are sampled, not enumerated"),
    "C20": ("fault_enumeration", "fault injection: forked children killed (os._exit) at every mutating file-system event (audit hook) - exhaustive single and pairwise crash points on fixed scenarios, Hypothesis-generated scenarios with random crash sequences",
            "source formats raw / zip / folder of zips x both copy functions x relative paths x local pre-states (absent, parent, "
            "user-provided); quick: all single crash points of 12 scenarios + 400 random scenarios with 0-3 crashes; thorough: "
            "additionally all crash-point pairs; after the crash sequence an uninterrupted call must leave a byte-identical copy "
            "(or the untouched user folder), a second call performs zero file-system mutations, results are truthful",
            "DESIGN.md §3 C20", TRUST + "; crash = process death between file-system operations (no power-loss reordering, no "
            "byte-level torn writes); multi-worker extraction only without crashes"),
}

NOT_YET = "check not built yet in this session (planned, see DESIGN.md §3)"


# what the sensitivity rounds added on top of the descriptions above (DESIGN.md §11 lists every strengthening)
ADDENDA = {
    "C01": " Indices also as numpy integers / 0-d tensors; recorded context keys that themselves contain 'ctx.'. Indices >= len must not be answered. Modes that repeat jointly loaded items (generated, plus exhaustive facet fused-repeats).",
    "C02": " Also copy / deepcopy / pickle clones of a stack, tuple / ndarray / tensor subset indices, getdim aliases of item names with underscores. Helpers over subsets above bulk-less roots (refusal or right answer), a layer's indices re-assigned after accessors were obtained. Facet concat-normalises-negative-indices: parts without negative indexing below a concat; a shallow copy of a used concat re-configured. Per-sample accessors also called with the index as keyword (idx=).",
    "C03": " Also labels as numpy scalars / 0-d tensors, numpy seeds, duplicate class names, wrappers above two other index-changing layers, arguments must not be mutated. A prior build over the root before the build over a view, the binary class-shape convention (1,), shared class names generated on purpose. Facet large-datasets: 2**16+37 ... 2**17+5 samples; unknown long names; unseeded wrappers reproducible under equal global numpy state. Empty list-index views of non-empty roots; ClasswiseSubsetWrapper over (views of) roots without getall_class.",
    "C04": " Also positional construction, a second pass and two live iterators over one scheduler object, two-rank DistributedSampler mains. A config listed twice (same sampler object); datasets that expose a larger .dataset of their own.",
    "C05": " Also side samplers yielding numpy scalars / tensor views or changing length between passes, positional configs. Two configs over one dataset object. A config listed twice (same sampler object, equal fields) keeps its own concat part; datasets that are views exposing a .dataset of their own.",
    "C06": " Facet far-checkpoints: the three equivalent checkpoint forms must agree (stream and announced epochs) for checkpoints beyond 2**31 / 2**53 updates; drop_last as int / numpy bool. Facet accepted-geometries: model-free relation (resumed run == the implementation's own uninterrupted run from the epoch announcement on) for whatever geometry the constructor accepts, incl. oversized drop_last_batch_size. Configs listed twice and view datasets as in C04 / C05.",
    "C07": " Also differing strength histories, the second instance as a deepcopy / pickle copy, members appended after construction, plain callables inside (wrapped) compositions, factory descriptions (kind-dicts / lists), PIL inputs. A member appended after a first injection. Facet random-apply-over-description: KDRandomApply handed a kind-dict / list (refused, or judged).",
    "C08": " Also positional construction, numpy seeds, one transform shared by X and Y wrappers, reuse of the caller's view configs, pickle / deepcopy of the dataset mid-history, factory descriptions, a refused stack must stay refused. Facet fresh-interpreters: samples recomputed in newly started python processes with other hash seeds must be bit-identical. A stack the library refuses must stay refused. No view of one index repeats a view of another index.",
    "C09": " Also collators supplied through an overridden property, a user transform deriving state in the per-worker hook, the scheduler's own loader with a prefetch factor, stacks sharing one root, hook run once in the main process. Factory descriptions, a pseudo-label layer, a sample loaded in the main process before the workers exist. Plain callables before / between library members of a composition.",
    "C10": " Also label dtypes other than float32, a user subclass overriding the partner hook. float64 images, permuted non-contiguous batches, shuffle mode re-assigned after construction. Facet clip-batches: (B,C,T,H,W) batches with cutmix are refused or consistent. 8-bit images (refused or judged), inf marker pixels under pure cutmix.",
    "C11": " Also labels as 0-d tensors / int64 one-hot / float soft vectors, torch default dtype float64, class count re-configured mid-history. cutmix configured next to mixup, unify mode re-assigned, unlabeled samples must be refused. A subset below and a transform wrapper above the mix wrapper; non-tensor soft labels. Request forms are generated sequences of x / class / index (repeats included); every slot must be filled.",
    "C12": " Facet process-group: W forked ranks join a real gloo group (file store, no network); samplers built without rank / world size must equal the explicit-rank samplers. Also W up to 16 with tiny datasets, numpy ranks, positional construction, launcher environment variables, two live iterators, 31/32-bit-boundary seeds. A process leaving its group and joining another; RandomSampler with replacement. Negative seeds; the mirror epoch (seed + epoch of opposite sign); any equal pair of epochs over >= 12 distinct elements counts.",
    "C13": " Also narrow integer label dtypes, positional construction, two live iterators. rank / world size / samples_per_class assigned after construction. SemiSampler chunk composition re-assigned on an already used sampler.",
    "C14": " Also norm/denorm in copy mode must leave their argument alone; a PatchwiseShuffle instance reused for a second sample. Segmentation pipelines also run with the image member as a PIL image. Image-only members (drawing from the per-sample generator) inside the semseg wrapper; facet box-helpers: both intersection helpers vs a pixel count.",
    "C15": " Also compositions over PIL inputs and ready-made pipelines, the transform travelling through deepcopy / pickle inside the factor history, factory descriptions, two scheduled wrappers sharing one transform, calls before worker initialisation. Numeric constant schedules incl. 0.",
    "C16": " Also numpy / omitted seeds, deepcopy / pickle of the second build, positional construction, integer vote tables and one-ulp near ties, stacked wrappers, class count re-configured after construction. Unlabeled samples through the encoders (refused or the -1 marker), pseudo-label threshold re-assigned after bulk access. Returned encodings modified in place between requests; group wrapper over re-configured labels.",
    "C17": " Facet ijepa-shared-step: through a 2-3 worker DataLoader the batches of one pass carry the block sizes of steps 0..n-1 (step counter shared by the forked workers); a subclass overriding step() is followed; multi-crop batches, non-square patches, a second batch size. Mask ratio re-assigned; the I-JEPA collator as member of wrapper / compose containers. Input sizes that are not multiples of the patch size.",
    "C18": " Also members appended after construction, collator objects wrapped a second time, python-float fields with dtype comparison, sequences with 3-4 axes. Dict items, members with a mode of their own inside containers, the shipped mix member's result is decoded. The fluent set_rng result used as collate function, tuple-valued items in padded samples, binary labels and batches of one through the shipped mix member.",
    "C19": " Histories also go through an in-process DataLoader (batches with repeated indices), a long-lived forked reader across clears, a deep-copied twin used side by side, shallow copies, wrapped datasets offering __getitems__ or a transform attribute of their own, numpy indices. Post-cache transform re-assigned after construction. Indices below -len. Facet keyed-datasets: map-style datasets addressed by fractions / strings / tuples.",
    "C20": " Path arguments as str / Path / through a symlinked parent / relative to the working directory, a symlinked sample in plain-folder sources, README files next to zips, upper-case archive suffixes, 33-65 zips with 2-3 workers. Home-relative (~) local paths, an outdated zip next to a folder source, glob metacharacters in paths. A damaged archive in a folder of zips; class folders with dots. Names with two dots in a row; a symlinked archive inside a folder of zips.",
}


def main():
    props = [json.loads(l) for l in open(os.path.join(HERE, "properties.jsonl"))]
    checks, na = [], []
    for p in props:
        pid = p["id"]
        if pid in REG:
            level, tech, text, ref, note = REG[pid]
            text = text + ADDENDA.get(pid, "")
            checks.append({
                "property_id": pid,
                "quick_cmd": f"/venv/bin/python run_check.py {pid} --tier quick",
                "thorough_cmd": f"/venv/bin/python run_check.py {pid} --tier thorough",
                "evidence_file": f"/verif/evidence/{pid}.json",
                "replay_cmd_template": f"/venv/bin/python run_check.py {pid} --replay {{path}}",
                "engine": "kd-pbt",
                "level_claimed": {"category": level, "text": text, "design_ref": ref},
                "level_note": note,
                "technique": tech,
            })
        else:
            na.append({"property_id": pid, "reason": NOT_YET})
    man = {
        "version": 1,
        "setup_cmd": SETUP,
        "hooks": {
            "guard": "KAPPADATA_VERIF",
            "enable": "no source hooks are needed: checks import /repo's working tree directly (editable install; "
                      "VERIF_REPO=<dir> points the same checks at a scratch copy); run_check.py sets KAPPADATA_VERIF=1 for uniformity",
            "baseline_off_cmd": "cd /repo && /venv/bin/python -m pytest -ra -q -p no:cacheprovider --timeout=900 "
                                "--continue-on-collection-errors",
            "source_commits": [],
            "add_only": True,
        },
        "engines": [{"name": "kd-pbt", "path": "/verif/run_check.py", "serves_properties": sorted(REG),
                     "kind_free_text": "Hypothesis-driven property-based testing runner: JSON specs -> objects built from "
                                       "/repo's working tree -> oracle; facets, sharding over 16 processes, root-cause "
                                       "bucketing, shrinking to replay files, evidence writer"}],
        "checks": checks,
        "not_applicable": na,
        "notes": "All checks: cwd=/verif, VERIF_SEED/VERIF_TIER honoured, exit 0 held / 1 VIOLATION / 2 harness error. "
                 "known_findings.json lists recorded and fixed defects.",
    }
    with open(os.path.join(HERE, "MANIFEST.json"), "w") as f:
        json.dump(man, f, indent=1)
    print(f"{len(checks)} checks, {len(na)} not claimed")


if __name__ == "__main__":
    main()
