#!/usr/bin/env python3
"""tools/seed_recheck.py <seeded-name> [--checks A,B]  re-runs quick checks against an already filed seeded change
(scratch worktree of /repo HEAD + patch) and appends the outcome to its meta.json"""
import json, os, subprocess, sys, tempfile, shutil
VERIF = os.path.dirname(os.path.dirname(os.path.abspath(__file__)))
name = sys.argv[1]
d = os.path.join(VERIF, "seeded", name)
meta = json.load(open(os.path.join(d, "meta.json")))
checks = [meta["property"]]
if "--checks" in sys.argv:
    checks = sys.argv[sys.argv.index("--checks") + 1].split(",")
wt = tempfile.mkdtemp(prefix=f"sr_{name}_", dir="/tmp"); os.rmdir(wt)
try:
    subprocess.run(f"git -C /repo worktree add --detach {wt} HEAD", shell=True, check=True, capture_output=True)
    r = subprocess.run(f"git apply {d}/patch.diff", shell=True, cwd=wt, capture_output=True, text=True)
    if r.returncode != 0:
        print("patch does not apply to current HEAD:", r.stderr[-300:]); sys.exit(1)
    out = {}
    for c in checks:
        env = dict(os.environ, VERIF_REPO=wt, VERIF_REPLAY_DIR=f"{wt}/_replays")
        r = subprocess.run(f"{VERIF}/run_check.py {c} --no-evidence", shell=True, env=env, capture_output=True, text=True)
        lines = [l.strip()[:260] for l in r.stdout.splitlines() if l.startswith(("  facet=", "VIOLATION", "HARNESS", "[C"))]
        out[c] = {"exit": r.returncode, "lines": lines[:6]}
        print(name, c, "exit", r.returncode, lines[1:2])
finally:
    subprocess.run(f"git -C /repo worktree remove --force {wt}", shell=True, capture_output=True)
    shutil.rmtree(wt, ignore_errors=True)
head = subprocess.run("git -C /repo rev-parse --short HEAD", shell=True, capture_output=True, text=True).stdout.strip()
vhead = subprocess.run(f"git -C {VERIF} rev-parse --short HEAD", shell=True, capture_output=True, text=True).stdout.strip()
meta.setdefault("rechecks", []).append({"repo_head": head, "verif_head_before_commit": vhead, "checks": out,
                                         "caught_by": [c for c, r in out.items() if r["exit"] == 1]})
json.dump(meta, open(os.path.join(d, "meta.json"), "w"), indent=1)
