#!/bin/bash
# tools/seed_eval_all.sh "<checks>" <prop> [<prop>...]   evaluates /tmp/seed_<prop>/_out/* (3 at a time)
checks=$1; shift
root=${SEED_ROOT:-/tmp/seed_}
for p in "$@"; do
  for d in ${root}$p/_out/${p}_*; do
    [ -f $d/patch.diff ] || continue
    n=$(basename $d)
    /verif/tools/seed_eval.py $p $d --checks $checks > /tmp/sv_$n.json 2>&1 &
    while [ $(jobs -r | wc -l) -ge 4 ]; do sleep 5; done
  done
done
wait
echo ALLDONE
