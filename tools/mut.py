#!/venv/bin/python
"""sensitivity helper: tools/mut.py <ID[,ID]> <relfile> <old> <new> [-- extra run_check args]
copies /repo/kappadata to a scratch dir, replaces the first occurrence of <old> by <new> in <relfile>,
runs the quick check(s) against the copy (VERIF_REPO) and removes the copy.  Also accepts a patch:
tools/mut.py <ID> --patch file.diff"""
import os
import shutil
import subprocess
import sys
import tempfile

HERE = os.path.dirname(os.path.dirname(os.path.abspath(__file__)))


def main():
    argv = sys.argv[1:]
    extra = []
    if "--" in argv:
        k = argv.index("--")
        argv, extra = argv[:k], argv[k + 1:]
    ids = argv[0].split(",")
    tmp = tempfile.mkdtemp(prefix="kd_mut_", dir="/tmp")
    try:
        shutil.copytree("/repo/kappadata", os.path.join(tmp, "kappadata"),
                        ignore=shutil.ignore_patterns("__pycache__"))
        if argv[1] == "--patch":
            subprocess.run(["patch", "-p1", "-d", tmp, "-i", os.path.abspath(argv[2])], check=True)
        else:
            rel, old, new = argv[1:4]
            p = os.path.join(tmp, rel)
            src = open(p).read()
            if old not in src:
                print("MUT: pattern not found")
                return 3
            open(p, "w").write(src.replace(old, new, 1))
        rc = 0
        for pid in ids:
            env = dict(os.environ, VERIF_REPO=tmp, VERIF_REPLAY_DIR=os.path.join(tmp, "replays"))
            r = subprocess.run([os.path.join(HERE, "run_check.py"), pid, "--no-evidence"] + extra, env=env,
                               capture_output=True, text=True)
            lines = [l for l in r.stdout.splitlines() if l.startswith(("VIOLATION", "  facet=", "HARNESS", "[C"))]
            print(f"MUT {pid}: exit={r.returncode}")
            for l in lines[:8]:
                print("   ", l[:220])
            if r.returncode == 2:
                print(r.stderr[-1500:])
            rc = max(rc, r.returncode)
        return rc
    finally:
        shutil.rmtree(tmp, ignore_errors=True)


if __name__ == "__main__":
    sys.exit(main())
