#!/usr/bin/env python3
"""tools/kf_add.py <property> <fixed|known> <signature> <commit-or-> <what...>   (edit-time helper, never used by checks)"""
import json, sys, os
p = os.path.join(os.path.dirname(os.path.dirname(os.path.abspath(__file__))), "known_findings.json")
L = json.load(open(p))
prop, status, sig, commit = sys.argv[1:5]
what = " ".join(sys.argv[5:])
e = {"property": prop, "status": status, "signature": sig, "what": what}
if status == "fixed":
    e["commit"] = commit
    e["record"] = f"fixed: property={prop} {commit} {what}"
else:
    e["record"] = f"KNOWN-FINDING: property={prop} {what}"
L.append(e)
json.dump(L, open(p, "w"), indent=1)
