#!/bin/bash
# tools/final_checks.sh - thorough tier of the checks that changed after the last full thorough run, then a quick multi-seed sweep
cd "$(dirname "$0")/.."
for c in C08 C19; do
  s=$(date +%s); out=$(./run_check.py $c --tier thorough --no-evidence 2>&1); rc=$?; e=$(date +%s)
  echo "thorough $c rc=$rc wall=$((e-s))s :: $(echo "$out" | grep '^\[C' | tail -1)"
  if [ $rc -ne 0 ]; then echo "$out" | tail -40; fi
done
tools/run_seeds.sh quick 2 3 4
