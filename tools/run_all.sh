#!/bin/bash
# tools/run_all.sh <tier> [extra args]  - runs every registered check once, prints exit code and wall time per check
tier=${1:-quick}; shift
for c in C01 C02 C03 C04 C05 C06 C07 C08 C09 C10 C11 C12 C13 C14 C15 C16 C17 C18 C19 C20; do
  s=$(date +%s)
  out=$(./run_check.py $c --tier $tier "$@" 2>&1)
  rc=$?
  e=$(date +%s)
  echo "$c rc=$rc wall=$((e-s))s :: $(echo "$out" | grep '^\[C' | tail -1)"
  if [ $rc -ne 0 ]; then echo "$out" | grep -v "^    \|^  File" | tail -15; fi
done
