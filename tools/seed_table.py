#!/usr/bin/env python3
"""prints the markdown table of seeded changes (seeded/*/meta.json) for DESIGN.md"""
import json, glob, os
VERIF = os.path.dirname(os.path.dirname(os.path.abspath(__file__)))
rows = []
for d in sorted(glob.glob(os.path.join(VERIF, "seeded", "*"))):
    m = json.load(open(os.path.join(d, "meta.json")))
    name = os.path.basename(d)
    first = m.get("confirmed_by_me", {}).get("caught_by", [])
    re = m.get("rechecks", [])
    last = re[-1]["caught_by"] if re else first
    sig = ""
    src = (re[-1]["checks"] if re else m.get("confirmed_by_me", {}).get("checks", {}))
    for c, r in src.items():
        for l in r.get("lines", []):
            if "signature=" in l:
                sig = l.split("signature=")[1].split(" ::")[0]
                break
        if sig:
            break
    summ = (m.get("summary") or "").replace("|", "/").replace("\n", " ")
    status = "caught" if first and not m.get("initially_missed") else ("caught after strengthening" if last else "MISSED")
    rows.append(f"| {name} | {summ[:150]} | {status} | {', '.join(last) or '-'} | `{sig[:70]}` |")
print("| id | change (sub-agent's summary) | outcome | check(s) | first signature |")
print("|---|---|---|---|---|")
print("\n".join(rows))
