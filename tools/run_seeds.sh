#!/bin/bash
# tools/run_seeds.sh <tier> <seed> [<seed>...] : every check at several VERIF_SEED values (no evidence written)
tier=$1; shift
for s in "$@"; do
  for c in C01 C02 C03 C04 C05 C06 C07 C08 C09 C10 C11 C12 C13 C14 C15 C16 C17 C18 C19 C20; do
    out=$(VERIF_SEED=$s ./run_check.py $c --tier $tier --no-evidence 2>&1); rc=$?
    echo "seed=$s $c rc=$rc :: $(echo "$out" | grep '^\[C' | tail -1)"
    if [ $rc -ne 0 ]; then echo "$out" | grep -v "^    \|^  File" | tail -12; fi
  done
done
