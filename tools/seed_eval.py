#!/usr/bin/env python3
"""tools/seed_eval.py <property> <agent_out_dir> [--checks C04,C05] [--skip-tests]
Confirms a seeded change independently (patch applies to /repo HEAD in a scratch worktree, demo fails with it and
passes without it, pinned stable tests still pass with it), runs the registered quick check(s) against it, and files
it under /verif/seeded/<name>/ (patch.diff, demo.py, meta.json)."""
import json
import os
import shutil
import subprocess
import sys
import tempfile
import xml.etree.ElementTree as ET

VERIF = os.path.dirname(os.path.dirname(os.path.abspath(__file__)))


def sh(cmd, cwd=None, env=None, timeout=3600):
    r = subprocess.run(cmd, shell=True, cwd=cwd, env=env, capture_output=True, text=True, timeout=timeout)
    return r.returncode, r.stdout, r.stderr


def stable_missing(wt):
    base = json.load(open("/root/.vp/BASELINE.json"))
    out = tempfile.mktemp(suffix=".xml", dir="/tmp")
    cmd = base["cmd"].replace("<file>", out).replace("cd /repo", f"cd {wt}")
    env = dict(os.environ, PYTHONPATH=wt, OMP_NUM_THREADS="2", MKL_NUM_THREADS="2")
    sh(cmd, env=env)
    passed = set()
    try:
        for tc in ET.parse(out).getroot().iter("testcase"):
            if not any(ch.tag in ("failure", "error", "skipped") for ch in tc):
                passed.add(f"{tc.get('classname')}::{tc.get('name')}")
    finally:
        if os.path.exists(out):
            os.remove(out)
    return [t for t in base["stable_pass"] if t not in passed]


def main():
    pid, src = sys.argv[1], os.path.abspath(sys.argv[2])
    checks = [pid]
    skip_tests = "--skip-tests" in sys.argv
    if "--checks" in sys.argv:
        checks = sys.argv[sys.argv.index("--checks") + 1].split(",")
    name = os.path.basename(src.rstrip("/"))
    wt = tempfile.mkdtemp(prefix=f"sv_{name}_", dir="/tmp")
    os.rmdir(wt)
    res = {"name": name, "property": pid}
    try:
        rc, o, e = sh(f"git -C /repo worktree add --detach {wt} HEAD")
        assert rc == 0, e
        rc, o, e = sh(f"git apply {src}/patch.diff", cwd=wt)
        res["applies"] = rc == 0
        if rc != 0:
            res["error"] = e[-400:]
            print(json.dumps(res, indent=1))
            return 1
        env = dict(os.environ, PYTHONPATH=wt)
        shutil.copy(f"{src}/demo.py", f"{wt}/_demo.py")
        rc, o, e = sh("/venv/bin/python _demo.py", cwd=wt, env=env, timeout=900)
        res["demo_with_patch_rc"] = rc
        if not skip_tests:
            res["stable_missing_with_patch"] = stable_missing(wt)
        # checks against the patched tree
        res["checks"] = {}
        for c in checks:
            cenv = dict(os.environ, VERIF_REPO=wt, VERIF_REPLAY_DIR=f"{wt}/_replays")
            rc, o, e = sh(f"{VERIF}/run_check.py {c} --no-evidence", env=cenv, timeout=3600)
            lines = [l.strip() for l in o.splitlines() if l.startswith(("  facet=", "VIOLATION", "HARNESS", "[C"))]
            res["checks"][c] = {"exit": rc, "lines": [l[:260] for l in lines[:6]]}
        sh("git checkout -- . ", cwd=wt)
        rc, o, e = sh("/venv/bin/python _demo.py", cwd=wt, env=env, timeout=900)
        res["demo_without_patch_rc"] = rc
    finally:
        sh(f"git -C /repo worktree remove --force {wt}")
        shutil.rmtree(wt, ignore_errors=True)
    confirmed = (res.get("applies") and res.get("demo_with_patch_rc", 0) != 0 and res.get("demo_without_patch_rc") == 0
                 and (skip_tests or not res.get("stable_missing_with_patch")))
    res["confirmed"] = bool(confirmed)
    res["caught_by"] = [c for c, r in res.get("checks", {}).items() if r["exit"] == 1]
    if confirmed:
        dst = os.path.join(VERIF, "seeded", name)
        os.makedirs(dst, exist_ok=True)
        shutil.copy(f"{src}/patch.diff", dst)
        shutil.copy(f"{src}/demo.py", dst)
        meta = {}
        if os.path.exists(f"{src}/meta.json"):
            try:
                meta = json.load(open(f"{src}/meta.json"))
            except Exception:
                meta = {"raw": open(f"{src}/meta.json").read()}
        meta.update({"property": pid, "confirmed_by_me": {
            "base_commit": sh("git -C /repo rev-parse --short HEAD")[1].strip(),
            "ran": ["git apply patch.diff in a scratch worktree of /repo HEAD", "demo.py with patch (non-zero exit) and without (exit 0)",
                    "pinned suite (BASELINE.json cmd) with patch: all stable_pass tests still pass" if not skip_tests else "tests skipped",
                    "run_check.py <ID> --tier quick with VERIF_REPO=<patched worktree>"],
            "demo_with_patch_rc": res["demo_with_patch_rc"], "demo_without_patch_rc": res["demo_without_patch_rc"],
            "checks": res["checks"], "caught_by": res["caught_by"]}})
        json.dump(meta, open(os.path.join(dst, "meta.json"), "w"), indent=1)
    print(json.dumps(res, indent=1))
    return 0


if __name__ == "__main__":
    sys.exit(main())
