#!/usr/bin/env python3
"""runs the pinned baseline suite in /repo and reports stable_pass tests that no longer pass"""
import json, subprocess, sys, tempfile, os, xml.etree.ElementTree as ET
base = json.load(open("/root/.vp/BASELINE.json"))
out = tempfile.mktemp(suffix=".xml", dir="/tmp")
cmd = base["cmd"].replace("<file>", out)
r = subprocess.run(cmd, shell=True, capture_output=True, text=True)
passed = set()
for tc in ET.parse(out).getroot().iter("testcase"):
    ok = not any(ch.tag in ("failure", "error", "skipped") for ch in tc)
    if ok:
        passed.add(f"{tc.get('classname')}::{tc.get('name')}")
os.remove(out)
missing = [t for t in base["stable_pass"] if t not in passed]
print(f"stable_pass={len(base['stable_pass'])} now_passing={len(passed)} missing={len(missing)}")
for m in missing[:30]:
    print("  MISSING", m)
sys.exit(1 if missing else 0)
