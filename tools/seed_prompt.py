#!/usr/bin/env python3
"""prints the prompt for a mutation-seeding sub-agent: tools/seed_prompt.py C04 (creates the worktree too)"""
import json, subprocess, sys, os
pid = sys.argv[1]
rnd = int(sys.argv[2]) if len(sys.argv) > 2 else 1
tag = pid if rnd == 1 else f"{pid}_r{rnd}"
wt = f"/tmp/seed_{pid}" if rnd == 1 else f"/tmp/seed{rnd}_{pid}"
if not os.path.exists(wt):
    subprocess.run(["git", "-C", "/repo", "worktree", "add", "--detach", wt, "HEAD"], check=True, capture_output=True)
p = [json.loads(l) for l in open("/verif/properties.jsonl") if json.loads(l)["id"] == pid][0]
EXTRA3 = (" This is a late round: single-site slips in the obvious places, falsy-default slips (seed=0, `or`), stale per-instance caches, "
          "lost set_rng/worker_init forwarding and wrong-variable offsets have all been tried already. Go for changes whose effect depends on the "
          "COMBINATION of two or more features or options that are each fine alone, on a SEQUENCE of three or more API calls, on aliasing / "
          "in-place mutation of an object handed in or out (lists, tensors, dicts, numpy arrays, context dicts), on numeric edge cases (rounding, "
          "int vs float, dtype, ties), on inheritance (a subclass that relies on a base-class method you change slightly), or on the order in which "
          "two independent components are constructed or called. Read the code paths of the less prominent files among the relevant sources too.")
EXTRA4 = (" This is the fourth round against a verifier that generates random inputs, configurations and call sequences with strong oracles; it "
          "already catches: single-site slips, falsy-default slips, stale caches, lost forwarding, wrong offsets, in-place mutation of "
          "arguments or of the wrapped dataset's storage, narrow integer dtypes, one object shared by two wrappers, second passes over the same "
          "object, launcher environment variables, tiny datasets on many ranks. Think about what random generation would typically NOT produce and "
          "make the breakage depend on that: unusual-but-legal argument TYPES or forms (numpy integers / 0-d tensors as indices or sizes, tuples vs "
          "lists, strings vs Path, keyword vs positional, negative indices where the library supports them, python floats vs numpy floats, bool "
          "for int), values at magnitudes a small-case generator does not reach (sizes above 255 / 32767 / 65535, seeds above 2**31 or 2**32, many "
          "epochs, many workers, long sequences), process / interpreter state (torch default dtype, global RNG state of python / numpy / torch, "
          "copy / deepcopy / pickle round trips of library objects, spawn vs fork workers, persistent workers across epochs), user SUBCLASSES of "
          "library base classes that override one documented hook, and rarely combined but documented options. The change must still be a "
          "realistic slip and must break the stated property, not merely something adjacent to it.")
def _extra5(pid):
    import importlib.util
    spec = importlib.util.spec_from_file_location("gm", "/verif/tools/gen_manifest.py")
    gm = importlib.util.module_from_spec(spec)
    spec.loader.exec_module(gm)
    covered = gm.REG[pid][2] + gm.ADDENDA.get(pid, "")
    return (" This is the fifth round against a verifier that generates random inputs, configurations and call sequences with strong oracles. For "
            "this property it already explores: " + covered + " In general it also already covers: single-site slips, falsy defaults, stale "
            "caches, lost forwarding, in-place mutation of arguments or of the wrapped dataset's storage, narrow dtypes, numpy / tensor "
            "scalars as arguments, positional vs keyword construction, copy / deepcopy / pickle clones, shared objects, second passes and "
            "two live iterators over one object, launcher environment variables, torch default dtype, user subclasses overriding a public "
            "hook, real worker processes and real process groups, public attributes re-assigned after construction, inputs the library refuses "
            "(they must stay refused), kind-dict / list descriptions resolved by the factory, samples recomputed in freshly started "
            "interpreters, unlabeled (-1) samples, non-contiguous and float64 tensors. Find something OUTSIDE all of that. Ideas: an alternate documented way of "
            "reaching the same behaviour that the list above does not mention; degenerate-but-legal sizes or values (empty / one element / "
            "all equal / probability exactly 0 or 1 / extreme alpha) in combination with a second option; an unusual but legal ORDER of public "
            "method calls (re-configuring after use, calling a hook twice, using an object after dispose / clear); state that accumulates so "
            "that only the third or later call / epoch / batch differs; an input the unchanged library refuses with an exception that your "
            "change now silently accepts with a wrong result; interaction with a torch / numpy feature (views, non-contiguous tensors, "
            "requires_grad, channels-last, read-only arrays, negative strides). The change must be a realistic slip, must break the stated "
            "property within its stated 'meant to hold for' range, and must respect the library's own documented contracts.")


extra = "" if rnd == 1 else _extra5(pid) if rnd >= 5 else EXTRA4 if rnd >= 4 else EXTRA3 if rnd >= 3 else " Avoid the most obvious one-token slip in the main function of the most relevant file: look instead at base classes, helper/utility functions and static helpers shared by these code paths, rarely used constructor options and their defaults (falsy values such as 0, None handling), state that is cached or carried across calls or across instances, the order of two operations, boundary values (empty, one element, exactly equal), and the interplay of two files."
print(f"""You are helping to evaluate a verification effort by playing the role of a developer who introduces a subtle regression.

Workspace: a scratch git worktree of the Python library BenediktAlkin/KappaData (PyTorch dataset utilities, package `kappadata`) at {wt}. Work ONLY inside {wt}. Never modify or read anything under /repo or /verif. Run Python as `/venv/bin/python` with your current directory set to {wt} (so that the worktree's copy of `kappadata` is the one imported; verify once with `cd {wt} && /venv/bin/python -c "import kappadata; print(kappadata.__file__)"` - it must print a path under {wt}; if it does not, prefix commands with `PYTHONPATH={wt}`). There is no network.

The semantic property (of the library's observable behaviour) you must break:

  Title: {p['title']}
  Statement: {p['statement']}
  It is meant to hold for: {p['quantifier']['text']}
  Relevant source files: {', '.join(p['anchors']['files'])}

Task: produce up to THREE different, independent changes to the library source (files under {wt}/kappadata only - do not edit tests), each of which
  (a) breaks the property above for some inputs,
  (b) still imports fine and still passes the existing test suite: `cd {wt} && OMP_NUM_THREADS=2 /venv/bin/python -m pytest -q -p no:cacheprovider --timeout=900 tests_unit tests_integration test_unit_long` (keep OMP_NUM_THREADS=2: the machine is shared) must not have any test fail that passes without your change (some tests already fail on the unchanged tree - those do not matter; compare against a run on the unchanged tree; do NOT use `git stash` - the stash is shared with other worktrees of this repository - save your change with `git diff > /tmp/<yourfile>.diff`, restore with `git checkout -- kappadata` and re-apply with `git apply`),
  (c) is realistic - looks like a plausible refactoring slip, off-by-one, wrong variable, lost forwarding, wrong default, stale state, ordering mistake - not sabotage such as `if x == 1234`,
  (d) needs something SPECIFIC to manifest: a particular multi-step sequence of operations, an unusual but legal input or configuration, a boundary value, a particular combination of two options, or two cooperating code sites that each look fine alone. Changes that ordinary use would expose at once are not wanted. Prefer changes that differ in kind from one another (different code site, different aspect of the property).{extra}

For each change i (1..3) create the directory {wt}/_out/{tag}_i/ containing
  - patch.diff : `git diff` of exactly that change against the unchanged worktree HEAD (applies with `git apply` at the repository root),
  - demo.py    : a small self-contained program that exits with status 0 on the unchanged library and with a non-zero status (assert failure) when the change is applied, demonstrating the broken property through the public API only; it is run as `cd <repo root> && /venv/bin/python <path>/demo.py`,
  - meta.json  : {{"property": "{pid}", "summary": "...what was changed...", "needs": "...what is needed for the breakage to manifest...", "ran": ["...commands you ran to confirm (a),(b)..."]}}.
Leave the worktree's source files UNCHANGED at the end (git status clean apart from _out/); only the _out directory carries your results. Each patch must be against the unchanged HEAD, not stacked on another patch.

Before finishing, verify for each change: patch applies; demo fails with it and passes without it; the test suite result is the same as without it. Final answer: a short list of the changes (one line each) and anything that did not work out.""")
