#!/venv/bin/python
"""Single entry point:  run_check.py <ID> [--tier quick|thorough] [--replay FILE] [--facet NAME] [--jobs N]

exit 0  property held on everything explored (KNOWN-FINDING lines may be printed)
exit 1  VIOLATION property=<id> replay=<path>
exit 2  harness error (never prints VIOLATION)
"""
import argparse
import glob
import importlib
import json
import os
import sys
import time
import traceback

HERE = os.path.dirname(os.path.abspath(__file__))


def _reexec_with_env():
    want = {"PYTHONHASHSEED": "0", "OMP_NUM_THREADS": "1", "MKL_NUM_THREADS": "1", "OPENBLAS_NUM_THREADS": "1",
            "KAPPADATA_VERIF": "1", "PYTHONDONTWRITEBYTECODE": "1", "PYTHONWARNINGS": "ignore"}
    if any(os.environ.get(k) != v for k, v in want.items()):
        env = dict(os.environ)
        env.update(want)
        os.execve(sys.executable, [sys.executable] + sys.argv, env)


def main():
    ap = argparse.ArgumentParser()
    ap.add_argument("pid")
    ap.add_argument("--tier", default=os.environ.get("VERIF_TIER", "quick"), choices=["quick", "thorough"])
    ap.add_argument("--replay")
    ap.add_argument("--facet", action="append")
    ap.add_argument("--jobs", type=int, default=int(os.environ.get("VERIF_JOBS", "16")))
    ap.add_argument("--scale", type=float, default=float(os.environ.get("VERIF_SCALE", "1.0")),
                    help="multiply every facet budget (sensitivity experiments)")
    ap.add_argument("--no-evidence", action="store_true")
    args = ap.parse_args()
    _reexec_with_env()

    import faulthandler
    import signal as _signal
    faulthandler.register(_signal.SIGUSR1, all_threads=True)
    os.chdir(HERE)
    sys.path.insert(0, HERE)
    repo = os.environ.get("VERIF_REPO", "/repo")
    sys.path.insert(0, repo)
    try:
        seed = int(os.environ.get("VERIF_SEED", "1"))
    except ValueError:
        seed = 1
    pid = args.pid.upper()

    try:
        import torch
        torch.set_num_threads(1)
        import kappadata
        if not os.path.abspath(kappadata.__file__).startswith(os.path.abspath(repo)):
            raise RuntimeError(f"kappadata imported from {kappadata.__file__}, expected under {repo}")
        from vlib import runner
        mods = sorted(glob.glob(os.path.join(HERE, "checks", f"{pid.lower()}_*.py")))
        if len(mods) != 1:
            raise RuntimeError(f"no unique check module for {pid}: {mods}")
        mod = importlib.import_module("checks." + os.path.basename(mods[0])[:-3])
    except Exception:
        traceback.print_exc()
        print(f"HARNESS-ERROR property={pid} import failed")
        return 2

    # temporary files of the code under test and of multiprocessing (manager sockets, ...) live under the checkout and go away with the
    # run: killed helper processes cannot clean up after themselves, and nothing may accumulate in /tmp
    import shutil
    import tempfile
    tmpdir = os.path.join(HERE, ".work", f"tmp-{os.getpid()}")
    os.makedirs(tmpdir, exist_ok=True)
    os.environ["TMPDIR"] = tmpdir
    tempfile.tempdir = tmpdir
    try:
        if args.replay:
            return runner.replay(pid, mod, args.replay)
        return runner.run_property(pid, mod, args.tier, seed, args.jobs, only_facets=args.facet, scale=args.scale,
                                   write_evidence=not args.no_evidence)
    except BaseException:
        traceback.print_exc()
        print(f"HARNESS-ERROR property={pid} runner crashed")
        return 2
    finally:
        shutil.rmtree(tmpdir, ignore_errors=True)


if __name__ == "__main__":
    sys.exit(main())
