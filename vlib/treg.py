"""Transform registry: JSON spec -> kappadata transform, strategies for specs, input builders, output comparison,
and a generic walk that finds every numpy Generator reachable from an object."""
import dataclasses
import io

import numpy as np
import torch
from hypothesis import strategies as st
from PIL import Image


# ----------------------------------------------------------------------------------------- leaf registry
# name -> (module path or None for kappadata.transforms, family, args strategy)
def _f(lo, hi):
    return st.floats(lo, hi, allow_nan=False, allow_infinity=False).map(lambda v: round(v, 3))


_MAG = st.fixed_dictionaries({"magnitude": st.sampled_from([1.0, 0.5, 0.8]),
                              "magnitude_std": st.sampled_from([0.0, 0.3, float("inf")]),
                              "magnitude_min": st.sampled_from([0.0, 0.2])})
_P = st.sampled_from([0.0, 0.3, 0.5, 0.8, 1.0])
_CJ = st.fixed_dictionaries({"brightness": st.sampled_from([0, 0.4, 0.8]), "contrast": st.sampled_from([0, 0.4]),
                             "saturation": st.sampled_from([0, 0.2, 0.6]), "hue": st.sampled_from([0, 0.1, 0.3])})
_SIGMA = st.sampled_from([[0.1, 2.0], [0.5, 0.5], [0.2, 1.0]])


def _merge(*ss):
    return st.tuples(*ss).map(lambda t: {k: v for d in t for k, v in d.items()})


LEAVES = {
    # family "img": float tensor CxHxW -> same shape
    "KDAdditiveGaussianNoise": ("img", _merge(st.fixed_dictionaries({"std": st.sampled_from([0.1, 0.5])}), _MAG)),
    "KDAdditiveUniformNoise": ("img", _MAG),
    "KDRandomAdditiveGaussianNoise": ("img", _merge(st.fixed_dictionaries({"p": _P, "std": st.sampled_from([0.1, 0.5])}), _MAG)),
    "KDColorJitter": ("img3", _CJ),
    "KDRandomColorJitter": ("img3", _merge(st.fixed_dictionaries({"p": _P}), _CJ)),
    "KDGaussianBlurTV": ("img", st.fixed_dictionaries({"kernel_size": st.sampled_from([3, 5]), "sigma": _SIGMA})),
    "KDRandomGaussianBlurTV": ("img", st.fixed_dictionaries({"p": _P, "kernel_size": st.sampled_from([3, 5]), "sigma": _SIGMA})),
    "KDRandomGrayscale": ("img3", st.fixed_dictionaries({"p": _P})),
    "KDRandomHorizontalFlip": ("img", st.fixed_dictionaries({"p": _P})),
    "KDRandomSolarize": ("img", st.fixed_dictionaries({"p": _P, "threshold": st.sampled_from([0.3, 0.5, 0.9])})),
    "KDRandomThreshold": ("img", st.fixed_dictionaries({"p": _P, "threshold": st.sampled_from([0.3, 0.5]),
                                                        "threshold_std": st.sampled_from([0.0, 0.2, float("inf")])})),
    "KDThreshold": ("img", st.fixed_dictionaries({"threshold": st.sampled_from([0.3, 0.5]),
                                                  "threshold_std": st.sampled_from([0.0, 0.2, float("inf")])})),
    "KDRandomRotation": ("img", st.fixed_dictionaries({"degrees": st.sampled_from([10, 45, [30, 30], [-20, 60]])})),
    "KDRandomErasing": ("img", st.fixed_dictionaries({"p": _P, "mode": st.sampled_from(["zeros", "channelwise", "pixelwise"]),
                                                      "max_count": st.sampled_from([None, 1, 3])})),
    "KDRoll": ("img", st.just({})),
    "KDMagnitudeJitter": ("img", st.fixed_dictionaries({"alpha": st.sampled_from([1.0, 10.0])})),
    "KDSpecAugment": ("img", st.fixed_dictionaries({"time_masking": st.sampled_from([None, 2, 5]), "frequency_masking": st.sampled_from([3, 6])})),
    # family "crop": tensor -> tensor of another size
    "KDRandomCrop": ("crop", st.fixed_dictionaries({"size": st.sampled_from([4, 6, [4, 6]]), "padding": st.sampled_from([None, 2, 4])})),
    "KDRandomResizedCrop": ("crop", st.fixed_dictionaries({"size": st.sampled_from([4, 8]), "scale": st.sampled_from([[0.08, 1.0], [0.3, 0.6]]),
                                                           "interpolation": st.sampled_from(["bilinear", "bicubic", "nearest"])})),
    "KDSimpleRandomCrop": ("crop", st.fixed_dictionaries({"size": st.sampled_from([6, 8]), "padding": st.sampled_from([2, 4])})),
    "KDTwoRandomCrop": ("crop2", st.fixed_dictionaries({"size": st.sampled_from([4, 6]), "overlap_min": st.sampled_from([None, 0.1]),
                                                        "overlap_max": st.sampled_from([None, 0.8])})),
    # family "pil": PIL RGB -> PIL
    "KDGaussianBlurPIL": ("pil", st.fixed_dictionaries({"sigma": _SIGMA})),
    "KDRandomGaussianBlurPIL": ("pil", st.fixed_dictionaries({"p": _P, "sigma": _SIGMA})),
    "KDThreeAugment": ("pil", st.fixed_dictionaries({"threshold": st.sampled_from([64, 128]), "sigma": _SIGMA})),
    "KDRandAugment": ("pil", st.fixed_dictionaries({"num_ops": st.integers(1, 3), "magnitude": st.sampled_from([5, 9]),
                                                    "magnitude_std": st.sampled_from([0.0, 0.5, float("inf")]),
                                                    "interpolation": st.sampled_from(["bicubic", "random"]),
                                                    "fill_color": st.just([124, 116, 104]), "apply_op_p": st.sampled_from([0.5, 1.0])})),
    "KDRandAugmentCustom": ("pil", st.fixed_dictionaries({"num_ops": st.integers(1, 3), "magnitude": st.sampled_from([5, 9]),
                                                          "magnitude_std": st.sampled_from([0.0, 0.5]), "interpolation": st.just("bicubic"),
                                                          "fill_color": st.just([124, 116, 104])})),
    # family "pair": (image tensor, segmentation mask) -> pair
    "KDSemsegRandomHorizontalFlip": ("pair", st.fixed_dictionaries({"p": _P})),
    "KDSemsegRandomResize": ("pair", st.fixed_dictionaries({"base_size": st.sampled_from([[8, 12], [16, 16]]), "ratio": st.sampled_from([[0.5, 2.0], [0.8, 1.2]]),
                                                             "interpolation": st.sampled_from(["bilinear", "nearest"])})),
    "KDSemsegRandomResizeOld": ("pair", st.fixed_dictionaries({"base_size": st.sampled_from([[8, 12], [16, 16]]), "ratio": st.sampled_from([[0.5, 2.0], [0.8, 1.2]])})),
    "KDSemsegRandomCrop": ("pair", st.fixed_dictionaries({"size": st.sampled_from([4, [4, 7], 6]), "max_category_ratio": st.sampled_from([1.0, 0.75, 0.5])})),
    # family "patch": C x L x ph x pw
    "PatchwiseRandomRotation": ("patch", st.just({})),
    "PatchwiseShuffle": ("patch", st.just({})),
}

_MODULES = {
    "KDRandomRotation": "kappadata.transforms.kd_random_rotation",
    "KDTwoRandomCrop": "kappadata.transforms.kd_two_random_crop",
    "KDRoll": "kappadata.transforms.audio.kd_roll",
    "KDMagnitudeJitter": "kappadata.transforms.audio.kd_magnitude_jitter",
    "KDSpecAugment": "kappadata.transforms.audio.kd_spec_augment",
    "KDSemsegRandomResizeOld": "kappadata.transforms.semseg.kd_semseg_random_resize_old",
}

PIPELINES = {
    "BYOLTransform0": ("kappadata.common.transforms", {"size": 32}),
    "BYOLTransform1": ("kappadata.common.transforms", {"size": 32}),
    "ImagenetMinaugTransform": ("kappadata.common.transforms", {"size": 32}),
    "MUGSStrongGlobalTransform": ("kappadata.common.transforms.mugs_transforms", {"size": 32}),
    "MUGSStrongLocalTransform": ("kappadata.common.transforms.mugs_transforms", {"size": 16}),
}


def leaf_class(name):
    import importlib
    if name in _MODULES:
        return getattr(importlib.import_module(_MODULES[name]), name)
    import kappadata.transforms as T
    return getattr(T, name)


_USER_HOOK = []


def user_hook_class():
    """a user-written transform that uses the documented per-worker hook: `_worker_init_fn` derives further per-worker state from the
    generator the worker was just given (e.g. a second generator for a torch-side noise source)"""
    if not _USER_HOOK:
        from kappadata.transforms.base.kd_stochastic_transform import KDStochasticTransform

        class UserHookTransform(KDStochasticTransform):
            def __init__(self):
                super().__init__()
                self.derived = np.random.default_rng(int(self.rng.integers(2 ** 31)))

            def _worker_init_fn(self, rank, num_workers, **kwargs):
                self.derived = np.random.default_rng(int(self.rng.integers(2 ** 31)))

            def __call__(self, x, ctx=None):
                return x + float(self.derived.random()) * 1e-3 + float(self.rng.random()) * 1e-3
        _USER_HOOK.append(UserHookTransform)
    return _USER_HOOK[0]


class PlainMember:
    """a plain deterministic callable (what a torchvision transform or a lambda is to the library): no set_rng, no ctx"""

    def __call__(self, x):
        return x.flip(-1) if torch.is_tensor(x) else x


def build(spec, factory=False):
    """factory=True: the same transform described the way configuration files describe it - leaves as {"kind": <ClassName or
    snake_case name>, **kwargs} dicts, compositions as plain lists - and resolved by kappadata.factory.object_to_transform"""
    k = spec["k"]
    if factory:
        from kappadata.factory import object_to_transform
        # one description object per spec object: building twice from the same spec hands the very same dicts / lists to the factory
        # again, as a configuration that is used for two pipelines does (the factory must not consume or alter what it is given)
        hit = _DESC_CACHE.get(id(spec))
        if hit is None or hit[0] is not spec:
            if len(_DESC_CACHE) > 256:
                _DESC_CACHE.clear()
            hit = (spec, _factory_description(spec))
            _DESC_CACHE[id(spec)] = hit
        if hit[1] is not None:
            return object_to_transform(_materialize(hit[1]))
    if k == "plain":
        return PlainMember()
    if k == "user_hook":
        return user_hook_class()()
    if k == "compose":
        from kappadata.transforms import KDComposeTransform
        return KDComposeTransform([build(m) for m in spec["m"]])
    if k == "random_apply":
        from kappadata.transforms import KDRandomApply
        return KDRandomApply(transform=build(spec["t"]), p=spec["p"])
    if k == "patchwise":
        from kappadata.transforms import PatchwiseTransform
        return PatchwiseTransform(patch_size=spec["ps"], transform=build(spec["t"]))
    if k == "scheduled":
        from kappadata.transforms import KDScheduledTransform
        return KDScheduledTransform(build(spec["t"]))
    if k == "pipeline":
        import importlib
        mod, kw = PIPELINES[spec["name"]]
        return getattr(importlib.import_module(mod), spec["name"])(**kw)
    args = {a: (tuple(v) if isinstance(v, list) and a in ("scale", "sigma", "fill_color") else v) for a, v in spec.get("a", {}).items()}
    return leaf_class(k)(**args)


_DESC_CACHE = {}


def _snake(name):
    if name.startswith("KD") and len(name) > 2:
        return "kd_" + _snake(name[2:])
    out = name[0].lower()
    for ch in name[1:]:
        out += ("_" + ch.lower()) if ch.isupper() else ch
    return out


def _factory_description(spec):
    """dict / list description of a spec, or None where the factory has no notation for it (harness members, wrappers that take a
    transform object, classes outside the two transform namespaces)"""
    import kappadata.common.transforms as CT
    import kappadata.transforms as T
    k = spec["k"]
    if k == "compose":
        members = []
        for m in spec["m"]:
            d = _factory_description(m)
            members.append(("object", m) if d is None else d)
        if not any(isinstance(d, tuple) for d in members) and len(repr(members)) % 2 == 0:
            # the other documented notation: an explicit compose whose members are still descriptions when its constructor sees them
            return {"kind": "kd_compose_transform", "transforms": members}
        return members
    if k == "scheduled":
        inner = _factory_description(spec["t"])
        return None if inner is None else {"kind": "kd_scheduled_transform", "transform": inner}
    if k == "patchwise":
        inner = _factory_description(spec["t"])
        return None if inner is None else {"kind": "patchwise_transform", "patch_size": spec["ps"], "transform": inner}
    if k in LEAVES and k not in _MODULES and (hasattr(T, k) or hasattr(CT, k)):
        args = {a: (tuple(v) if isinstance(v, list) and a in ("scale", "sigma", "fill_color") else v) for a, v in spec.get("a", {}).items()}
        # both spellings the factory accepts: the class name and its lower-case form (underscores are ignored)
        kind = k if len(k) % 2 else _snake(k)
        return dict(kind=kind, **args)
    return None


def for_wrapper(spec, factory=False):
    """what is handed to a wrapper's `transform=` argument: a transform object, or - factory - the description itself (wrappers resolve
    kind-dicts and lists through the factory on their own)"""
    if factory:
        desc = _factory_description(spec)
        if desc is not None:
            return _materialize(desc)
    return build(spec)


def _materialize(desc):
    """members the factory has no notation for are fresh objects on every build; the kind-dicts are the very same objects every time"""
    if isinstance(desc, list):
        return [_materialize(d) for d in desc]
    if isinstance(desc, dict) and desc.get("kind") == "kd_compose_transform":
        return dict(desc, transforms=[_materialize(d) for d in desc["transforms"]])
    if isinstance(desc, dict) and "transform" in desc:
        return dict(desc, transform=_materialize(desc["transform"]))
    if isinstance(desc, tuple) and desc[0] == "object":
        return build(desc[1])
    return desc


def family(spec):
    k = spec["k"]
    if k == "compose":
        fams = [family(m) for m in spec["m"]]
        return "img3" if "img3" in fams else "img"
    if k in ("random_apply", "scheduled"):
        return family(spec["t"])
    if k == "patchwise":
        return family(spec["t"])  # all img inputs are 8x12, divisible by the patch size 4
    if k == "pipeline":
        return "pipeline"
    if k in ("user_hook", "plain"):
        return "img"
    return LEAVES[k][0]


def is_composite(spec):
    return spec["k"] in ("compose", "random_apply", "patchwise", "scheduled", "pipeline") or spec["k"] in OWNS_MEMBER


OWNS_MEMBER = {"KDRandomAdditiveGaussianNoise", "KDRandomColorJitter", "KDRandomGaussianBlurTV", "KDRandomGaussianBlurPIL",
               "KDRandomSolarize", "KDRandomThreshold", "KDSimpleRandomCrop", "KDThreeAugment"}


def contains(spec, kind):
    if spec["k"] == kind:
        return True
    if spec["k"] == "compose":
        return any(contains(m, kind) for m in spec["m"])
    if "t" in spec:
        return contains(spec["t"], kind)
    return False


def leaf_names(spec, acc=None):
    acc = [] if acc is None else acc
    if spec["k"] == "compose":
        for m in spec["m"]:
            leaf_names(m, acc)
    elif "t" in spec:
        acc.append(spec["k"])
        leaf_names(spec["t"], acc)
    else:
        acc.append(spec.get("name", spec["k"]))
    return acc


# ----------------------------------------------------------------------------------------- strategies
def leaf_spec(name):
    return LEAVES[name][1].map(lambda a, n=name: {"k": n, "a": {k: v for k, v in a.items() if v is not None or k in ("max_count",)}})


IMG_LEAVES = [n for n, (f, _) in LEAVES.items() if f in ("img", "img3")]
# tensor transforms that are documented (torchvision functional ops) to accept PIL images as well
PIL_OK = ["KDColorJitter", "KDRandomColorJitter", "KDRandomGrayscale", "KDRandomHorizontalFlip", "KDRandomRotation", "KDRandomCrop",
          "KDRandomResizedCrop", "KDSimpleRandomCrop", "KDTwoRandomCrop", "KDGaussianBlurTV", "KDRandomGaussianBlurTV"]


@st.composite
def img_composite(draw, depth=2, allow_scheduled=True):
    """shape-preserving tensor->tensor compositions (valid by construction)"""
    kinds = ["leaf", "leaf", "compose", "random_apply", "patchwise"] + (["scheduled"] if allow_scheduled else [])
    kind = draw(st.sampled_from(kinds)) if depth > 0 else "leaf"
    if kind == "leaf":
        return draw(leaf_spec(draw(st.sampled_from(IMG_LEAVES))))
    if kind == "compose":
        n = draw(st.integers(1, 3))
        return {"k": "compose", "m": [draw(img_composite(depth - 1, allow_scheduled)) for _ in range(n)]}
    if kind == "random_apply":
        return {"k": "random_apply", "p": draw(_P), "t": draw(img_composite(depth - 1, allow_scheduled))}
    if kind == "patchwise":
        # members of a patchwise transform see C x ph x pw patches
        inner = draw(leaf_spec(draw(st.sampled_from([n for n in IMG_LEAVES if n not in ("KDSpecAugment", "KDGaussianBlurTV",
                                                                                         "KDRandomGaussianBlurTV")]))))
        return {"k": "patchwise", "ps": 4, "t": inner}
    return {"k": "scheduled", "t": draw(img_composite(depth - 1, False))}


# ----------------------------------------------------------------------------------------- inputs
def make_input(fam, key, size=None):
    """deterministic input for a family from an integer key"""
    rng = np.random.default_rng([key, 991])
    if fam in ("img", "img3", "crop", "crop2"):
        c = 3 if fam in ("img3",) or key % 2 else 1
        if fam in ("crop", "crop2"):
            h, w = (size or (8 + key % 5, 8 + (key // 5) % 7))
        else:
            h, w = (size or (8, 12))
        return torch.from_numpy(rng.random(size=(c, h, w), dtype=np.float32))
    if fam == "pil":
        h, w = size or (12 + key % 4, 10 + key % 3)
        return Image.fromarray(rng.integers(0, 256, size=(h, w, 3), dtype=np.uint8), mode="RGB")
    if fam == "pipeline":
        h, w = size or (40 + key % 9, 36 + key % 5)
        return Image.fromarray(rng.integers(0, 256, size=(h, w, 3), dtype=np.uint8), mode="RGB")
    if fam == "patch":
        return torch.from_numpy(rng.random(size=(2, 6, 3, 3), dtype=np.float32))
    if fam == "pair":
        h, w = size or (8 + key % 5, 9 + key % 4)
        return (torch.from_numpy(rng.random(size=(3, h, w), dtype=np.float32)), torch.from_numpy(rng.integers(0, 4, size=(h, w))))
    if fam == "pil_any":
        h, w = size or (10 + key % 5, 12 + key % 3)
        return Image.fromarray(rng.integers(0, 256, size=(h, w, 3), dtype=np.uint8), mode="RGB")
    raise ValueError(fam)


def clone_input(x):
    if torch.is_tensor(x):
        return x.clone()
    if isinstance(x, Image.Image):
        return x.copy()
    if isinstance(x, (list, tuple)):
        return type(x)(clone_input(v) for v in x)
    return x


def out_equal(a, b):
    if type(a) is not type(b) and not (torch.is_tensor(a) and torch.is_tensor(b)):
        return False
    if torch.is_tensor(a):
        return a.shape == b.shape and a.dtype == b.dtype and torch.equal(a, b)
    if isinstance(a, Image.Image):
        return a.size == b.size and a.mode == b.mode and a.tobytes() == b.tobytes()
    if isinstance(a, (list, tuple)):
        return len(a) == len(b) and all(out_equal(x, y) for x, y in zip(a, b))
    if isinstance(a, np.ndarray):
        return a.shape == b.shape and np.array_equal(a, b)
    if isinstance(a, dict):
        return a.keys() == b.keys() and all(out_equal(a[k], b[k]) for k in a)
    if isinstance(a, float) and isinstance(b, float):
        return a == b or (a != a and b != b)
    return a == b


def digest(x):
    """short printable description of an output"""
    if torch.is_tensor(x):
        return f"tensor{tuple(x.shape)} sum={float(x.double().sum()):.6f}"
    if isinstance(x, Image.Image):
        return f"PIL{x.size} sum={int(np.asarray(x).sum())}"
    if isinstance(x, (list, tuple)):
        return "[" + ", ".join(digest(v) for v in x) + "]"
    return repr(x)[:60]


# ----------------------------------------------------------------------------------------- generator walk
def walk_generators(obj, path="", seen=None, out=None, depth=0):
    """every np.random.Generator reachable through __dict__/list/tuple/dict/dataclass fields: {path: generator}"""
    seen = set() if seen is None else seen
    out = {} if out is None else out
    if id(obj) in seen or depth > 14:
        return out
    if isinstance(obj, np.random.Generator):
        out[path] = obj
        return out
    if obj is None or isinstance(obj, (int, float, str, bytes, bool, torch.Tensor, np.ndarray, Image.Image, type)):
        return out
    seen.add(id(obj))
    if isinstance(obj, (list, tuple)):
        for i, v in enumerate(obj):
            walk_generators(v, f"{path}[{i}]", seen, out, depth + 1)
        return out
    if isinstance(obj, dict):
        for k, v in obj.items():
            walk_generators(v, f"{path}[{k!r}]", seen, out, depth + 1)
        return out
    mod = getattr(type(obj), "__module__", "")
    if mod.startswith(("torch.", "torchvision.", "numpy", "logging", "PIL", "multiprocessing", "threading")) and not isinstance(obj, torch.utils.data.Dataset):
        return out
    d = getattr(obj, "__dict__", None)
    if isinstance(d, dict):
        for k, v in d.items():
            if k == "logger":
                continue
            walk_generators(v, f"{path}.{k}", seen, out, depth + 1)
    if hasattr(obj, "__self__") and hasattr(obj, "__func__"):  # bound method (e.g. MagnitudeSampler.sample, rand-augment ops)
        walk_generators(obj.__self__, f"{path}.__self__", seen, out, depth + 1)
    return out


def owner_chain(obj, path):
    """class names of the objects along a walk path like '.transforms[1].noise.rng' (last two owners)"""
    import re
    names = []
    cur = obj
    for tok in re.findall(r"\.[A-Za-z_][A-Za-z_0-9]*|\[[^\]]+\]", path):
        try:
            if tok.startswith("."):
                nxt = getattr(cur, tok[1:])
            else:
                key = tok[1:-1]
                nxt = cur[int(key)] if key.lstrip("-").isdigit() else cur[key.strip("'\"")]
        except Exception:
            break
        if hasattr(cur, "__dict__") and not isinstance(cur, (list, tuple, dict)):
            names.append(type(cur).__name__)
        cur = nxt
    return ">".join(names[-2:])


def gen_state(g):
    s = g.bit_generator.state
    return repr(s)
