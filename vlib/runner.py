import glob
import json
import multiprocessing as mp
import multiprocessing.pool
import os
import shutil
import sys
import time
import traceback

from . import core

HERE = os.path.dirname(os.path.dirname(os.path.abspath(__file__)))
_MOD = None


class _NoDaemonProcess(mp.get_context("fork").Process):
    # pool workers must be able to start children (DataLoader workers, Manager processes, forked crash victims)
    @property
    def daemon(self):
        return False

    @daemon.setter
    def daemon(self, value):
        pass


class _NoDaemonContext(type(mp.get_context("fork"))):
    Process = _NoDaemonProcess


class _NoDaemonPool(mp.pool.Pool):
    def __init__(self, *args, **kwargs):
        kwargs["context"] = _NoDaemonContext()
        super().__init__(*args, **kwargs)


def load_known(pid):
    path = os.path.join(HERE, "known_findings.json")
    if not os.path.exists(path):
        return []
    with open(path) as f:
        entries = json.load(f)
    return [e for e in entries if e.get("property") == pid]


def _facets(mod, tier, only=None):
    fs = [f for f in mod.FACETS if tier in f.tiers]
    if only:
        fs = [f for f in fs if f.name in only or any(f.name.startswith(o) for o in only)]
    return fs


def _task(args):
    fi, tier, seed, shard, n_shards, known_sigs, scale = args
    facet = _MOD.FACETS[fi]
    ts = getattr(_MOD, "THOROUGH_SCALE", 1)
    if tier == "thorough" and ts != 1 and not getattr(facet, "_ts_applied", False):
        facet.budget = dict(facet.budget, thorough=int(facet.budget.get("thorough", 0) * ts))
        facet._ts_applied = True
    if scale != 1.0:
        facet.budget = {k: max(1, int(v * scale)) for k, v in facet.budget.items()}
    try:
        res = core.run_shard(facet, tier, seed, shard, n_shards, known_sigs)
        return fi, shard, res.to_json()
    except BaseException:
        r = core.ShardResult(facet.name)
        r.error = traceback.format_exc()
        return fi, shard, r.to_json()


def run_property(pid, mod, tier, seed, jobs, only_facets=None, scale=1.0, write_evidence=True):
    global _MOD
    _MOD = mod
    t0 = time.time()
    known = load_known(pid)
    known_sigs = [e["signature"] for e in known if e.get("status") == "known"]
    facets = _facets(mod, tier, only_facets)
    if not facets:
        print(f"HARNESS-ERROR property={pid} no facets for tier {tier}")
        return 2
    tasks = []
    for f in facets:
        fi = mod.FACETS.index(f)
        n_shards = max(1, f.shards.get(tier, 1))
        for s in range(n_shards):
            tasks.append((fi, tier, seed, s, n_shards, known_sigs, scale))
    # longest facets first
    tasks.sort(key=lambda t: -mod.FACETS[t[0]].budget.get(tier, 0))
    # committed regression replays (shrunk failures of earlier findings) run first, bypassing Hypothesis
    regress_viol = []
    regress_errors = []
    n_regress = 0
    for path in sorted(glob.glob(os.path.join(HERE, "replays", pid, "regress-*.json"))):
        with open(path) as fh:
            rec = json.load(fh)
        fs = [f for f in mod.FACETS if f.name == rec["facet"]]
        if not fs:
            continue
        n_regress += 1
        tmp = core.ShardResult(rec["facet"])
        try:
            core.run_one(fs[0], rec["spec"], set(known_sigs), tmp)
        except core.Violation as v:
            regress_viol.append((rec["facet"], v.signature, {"message": v.message, "spec": rec["spec"]}, path))
        except Exception:
            regress_errors.append((rec["facet"], "regression replay %s crashed:\n%s" % (os.path.basename(path), traceback.format_exc())))
    results = []
    if jobs <= 1 or len(tasks) == 1:
        for t in tasks:
            results.append(_task(t))
    else:
        with _NoDaemonPool(min(jobs, len(tasks))) as pool:
            for r in pool.imap_unordered(_task, tasks):
                results.append(r)

    # merge
    per_facet = {}
    for fi, shard, r in results:
        f = mod.FACETS[fi]
        m = per_facet.setdefault(f.name, {"evaluations": 0, "cases": 0, "nontrivial": set(), "labels": {}, "refused": {},
                                          "timeouts": 0, "excluded_known": {}, "samples": [], "violations": {},
                                          "errors": [], "wall_s": 0.0, "exhaustive": f.exhaustive})
        m["evaluations"] += r["evaluations"]
        m["cases"] += r["cases"]
        m["nontrivial"].update(r["nontrivial_hashes"])
        for k in ("labels", "refused", "excluded_known"):
            for a, b in r[k].items():
                m[k][a] = m[k].get(a, 0) + b
        m["timeouts"] += r["timeouts"]
        m["samples"].extend(r["samples"][:3])
        for sig, v in r["violations"].items():
            if sig not in m["violations"] or len(core.canon(v["spec"])) < len(core.canon(m["violations"][sig]["spec"])):
                m["violations"][sig] = v
        if r["error"]:
            m["errors"].append(r["error"])
        m["wall_s"] = max(m["wall_s"], r["wall_s"])
        if f.exhaustive and not r.get("exhaustive_done"):
            m["exhaustive"] = False

    errors = [(n, e) for n, m in per_facet.items() for e in m["errors"]] + regress_errors
    violations = []
    rdir = os.path.join(os.environ.get("VERIF_REPLAY_DIR") or os.path.join(HERE, "replays"), pid)
    for name, m in per_facet.items():
        for sig, v in m["violations"].items():
            os.makedirs(rdir, exist_ok=True)
            path = os.path.join(rdir, f"{name}-{core.sig_slug(sig)}.json")
            with open(path, "w") as fh:
                json.dump({"property": pid, "facet": name, "signature": sig, "message": v["message"], "spec": v["spec"],
                           "seed": seed, "tier": tier}, fh, indent=1, sort_keys=True)
            violations.append((name, sig, v, path))

    violations.extend(regress_viol)
    vacuous = []
    for f in facets:
        m = per_facet.get(f.name)
        need = f.min_nontrivial.get(tier, 1)
        if scale < 1.0:
            need = int(need * scale)
        if m is not None and not m["errors"] and not m["violations"] and len(m["nontrivial"]) < need:
            vacuous.append((f.name, len(m["nontrivial"]), need))

    wall = time.time() - t0
    if write_evidence and not only_facets:
        try:
            _write_evidence(pid, mod, tier, seed, per_facet, violations, known, wall, n_regress)
        except Exception:
            traceback.print_exc()
            errors.append(("evidence", "could not write evidence"))

    for e in known:
        if e.get("status") == "known":
            n = sum(m["excluded_known"].get(e["signature"], 0) for m in per_facet.values())
            print(f"KNOWN-FINDING: property={pid} {e['what']} [signature={e['signature']}; {n} generated cases excluded]")
    tot_eval = sum(m["evaluations"] for m in per_facet.values())
    tot_nt = sum(len(m["nontrivial"]) for m in per_facet.values())
    print(f"[{pid}] tier={tier} seed={seed} facets={len(per_facet)} evaluations={tot_eval} distinct_nontrivial={tot_nt} "
          f"refused={sum(sum(m['refused'].values()) for m in per_facet.values())} "
          f"timeouts={sum(m['timeouts'] for m in per_facet.values())} wall={wall:.1f}s")
    if os.environ.get("VERIF_VERBOSE"):
        for name, m in sorted(per_facet.items()):
            print(f"   {name}: cases={m['cases']} evals={m['evaluations']} nontrivial={len(m['nontrivial'])} "
                  f"refused={sum(m['refused'].values())} timeouts={m['timeouts']} wall={m['wall_s']:.1f}s "
                  f"labels={dict(sorted(m['labels'].items())[:12])} refusals={dict(list(m['refused'].items())[:4])}")
    if violations:
        for name, sig, v, path in violations:
            print(f"  facet={name} signature={sig} :: {v['message'][:300]}")
            print(f"VIOLATION property={pid} replay={os.path.relpath(path, HERE)}")
        return 1
    if errors:
        for n, e in errors[:5]:
            print(f"HARNESS-ERROR property={pid} facet={n}\n{e}", file=sys.stderr)
        print(f"HARNESS-ERROR property={pid} {len(errors)} facet error(s)")
        return 2
    if vacuous:
        for n, got, need in vacuous:
            print(f"HARNESS-ERROR property={pid} facet={n} vacuous: {got} non-trivial cases < {need}")
        return 2
    return 0


def _write_evidence(pid, mod, tier, seed, per_facet, violations, known, wall, n_regress):
    samples = []
    for name, m in sorted(per_facet.items()):
        for s in m["samples"][:2]:
            samples.append({"facet": name, "spec": s})
    samples = samples[:40]
    labels = {}
    for name, m in per_facet.items():
        for k, v in m["labels"].items():
            labels[f"{name}:{k}"] = v
    refused = {}
    for name, m in per_facet.items():
        for k, v in m["refused"].items():
            refused[f"{name}:{k}"] = v
    cov = {
        "evaluations": sum(m["evaluations"] for m in per_facet.values()),
        "distinct_nontrivial": sum(len(m["nontrivial"]) for m in per_facet.values()),
        "rule": getattr(mod, "RULE", ""),
        "samples": samples,
        "cases_generated": sum(m["cases"] for m in per_facet.values()),
        "facets": {name: {"cases": m["cases"], "evaluations": m["evaluations"], "distinct_nontrivial": len(m["nontrivial"]),
                          "refused": sum(m["refused"].values()), "timeouts_inconclusive": m["timeouts"],
                          "excluded_known": m["excluded_known"], "exhaustive": bool(m["exhaustive"]),
                          "wall_s": round(m["wall_s"], 2)}
                   for name, m in sorted(per_facet.items())},
        "classes": dict(sorted(labels.items())),
        "refused": dict(sorted(refused.items())),
        "excluded_known": {e["signature"]: sum(m["excluded_known"].get(e["signature"], 0) for m in per_facet.values())
                           for e in known if e.get("status") == "known"},
        "exhaustive": bool(per_facet) and all(m["exhaustive"] for m in per_facet.values()),
        "violation_signatures": [f"{n}:{s}" for n, s, _, _ in violations],
        "regression_replays_run": n_regress,
    }
    ev = {
        "property_id": pid,
        "tier": tier,
        "seed": seed,
        "level": getattr(mod, "LEVEL", "exploration"),
        "coverage": cov,
        "assumptions": list(getattr(mod, "ASSUMPTIONS", [])),
        "wall_s": round(wall, 2),
        "violations": len(violations),
    }
    os.makedirs(os.path.join(HERE, "evidence"), exist_ok=True)
    path = os.path.join(HERE, "evidence", f"{pid}.json")
    tmp = path + ".tmp"
    with open(tmp, "w") as fh:
        json.dump(ev, fh, indent=1, sort_keys=True, default=core._json_default)
    os.replace(tmp, path)


def replay(pid, mod, path):
    global _MOD
    _MOD = mod
    with open(path) as fh:
        rec = json.load(fh)
    name = rec["facet"]
    fs = [f for f in mod.FACETS if f.name == name]
    if not fs:
        print(f"HARNESS-ERROR property={pid} unknown facet {name}")
        return 2
    facet = fs[0]
    res = core.ShardResult(name)
    try:
        core.run_one(facet, rec["spec"], set(), res)
    except core.Violation as v:
        print(f"  facet={name} signature={v.signature} :: {v.message[:500]}")
        print(f"VIOLATION property={pid} replay={path}")
        return 1
    except Exception:
        traceback.print_exc()
        print(f"HARNESS-ERROR property={pid} replay crashed")
        return 2
    print(f"[{pid}] replay {path}: held (refused={res.refused}, timeouts={res.timeouts})")
    return 0
