"""Core of the property-based verification runner.

A *facet* is one Hypothesis-driven (or exhaustively enumerated) check of one relation/component of a
property.  A facet draws JSON-able *specs*; `check(spec)` builds the real objects from /repo's working
tree, runs the oracle and
  * returns a `Case` (labels, non-triviality)            -> property held on this case
  * raises `Violation(signature, message)`               -> property broken (bucketed by signature)
  * raises `Refused(reason)`                             -> documented refusal of the input (counted)
Everything random comes from the spec, so the shrunk failing spec is the replay file.
"""
import hashlib
import json
import os
import random
import signal
import time
import traceback


class Violation(Exception):
    def __init__(self, signature, message="", detail=None):
        super().__init__(f"{signature}: {message}")
        self.signature = signature
        self.message = message
        self.detail = detail


class Refused(Exception):
    """the code refused the input with a documented exception - counted, never a violation"""


class CaseTimeout(Exception):
    pass


class HarnessError(Exception):
    pass


class Case:
    __slots__ = ("nontrivial", "labels", "evals")

    def __init__(self, nontrivial=False, labels=(), evals=1):
        self.nontrivial = bool(nontrivial)
        self.labels = tuple(labels)
        self.evals = evals


class Facet:
    """name; strategy(tier)->hypothesis strategy of specs OR enumerate(tier)->iterable of specs;
    check(spec)->Case; budget {tier: n_examples}; min_nontrivial {tier: n} vacuity guard;
    case_timeout seconds (None = none); shards {tier: k}."""

    def __init__(self, name, check, strategy=None, enumerate=None, budget=None, min_nontrivial=None,
                 case_timeout=30, shards=None, exhaustive=False, tiers=("quick", "thorough")):
        self.name = name
        self.check = check
        self.strategy = strategy
        self.enumerate = enumerate
        self.budget = budget or {"quick": 200, "thorough": 2000}
        self.min_nontrivial = min_nontrivial or {"quick": 1, "thorough": 1}
        self.case_timeout = case_timeout
        self.shards = shards or {"quick": 1, "thorough": 4}
        self.exhaustive = exhaustive
        self.tiers = tiers


def canon(spec):
    return json.dumps(spec, sort_keys=True, separators=(",", ":"), default=_json_default)


def _json_default(o):
    try:
        import numpy as np
        if isinstance(o, np.generic):
            return o.item()
        if isinstance(o, np.ndarray):
            return o.tolist()
    except Exception:
        pass
    if isinstance(o, (set, frozenset)):
        return sorted(o)
    if isinstance(o, bytes):
        return o.hex()
    return repr(o)


def spec_hash(spec):
    return hashlib.sha1(canon(spec).encode()).hexdigest()[:16]


def derive_seed(*parts):
    h = hashlib.sha256("|".join(str(p) for p in parts).encode()).digest()
    return int.from_bytes(h[:8], "big") % (2 ** 63)


def sig_slug(sig):
    s = "".join(c if c.isalnum() or c in "-_." else "_" for c in sig)
    return s[:120]


class _Alarm:
    def __init__(self, seconds):
        self.seconds = seconds

    def _handler(self, signum, frame):
        raise CaseTimeout()

    def __enter__(self):
        if self.seconds:
            self.old = signal.signal(signal.SIGALRM, self._handler)
            signal.setitimer(signal.ITIMER_REAL, self.seconds, 0.05)  # repeating, see c03 _Term

    def __exit__(self, *a):
        if self.seconds:
            signal.setitimer(signal.ITIMER_REAL, 0)
            signal.signal(signal.SIGALRM, self.old)


class _GlobalRngGuard:
    """snapshot/restore the process-global RNG states so cases cannot leak into each other"""

    def __enter__(self):
        import numpy as np
        import torch
        self.np_state = np.random.get_state()
        self.torch_state = torch.get_rng_state()
        self.py_state = random.getstate()

    def __exit__(self, *a):
        import numpy as np
        import torch
        np.random.set_state(self.np_state)
        torch.set_rng_state(self.torch_state)
        random.setstate(self.py_state)


class ShardResult:
    def __init__(self, facet):
        self.facet = facet
        self.evaluations = 0
        self.cases = 0
        self.nontrivial_hashes = set()
        self.labels = {}
        self.refused = {}
        self.timeouts = 0
        self.excluded_known = {}
        self.samples = []
        self.violations = {}  # signature -> dict(spec, message)
        self.error = None
        self.wall_s = 0.0
        self.exhaustive_done = False

    def to_json(self):
        d = dict(self.__dict__)
        d["nontrivial_hashes"] = sorted(self.nontrivial_hashes)
        return d


def run_one(facet, spec, known_sigs, res, sample_cap=6):
    """run facet.check on one spec, update counters; re-raises Violation for unknown signatures"""
    h = spec_hash(spec)
    try:
        with _GlobalRngGuard():
            with _Alarm(facet.case_timeout):
                case = facet.check(spec)
    except Refused as e:
        key = str(e)[:80]
        res.refused[key] = res.refused.get(key, 0) + 1
        res.cases += 1
        return
    except CaseTimeout:
        res.timeouts += 1
        res.cases += 1
        return
    except Violation as v:
        res.cases += 1
        res.evaluations += 1
        if v.signature in known_sigs:
            res.excluded_known[v.signature] = res.excluded_known.get(v.signature, 0) + 1
            return
        raise
    if case is None:
        case = Case()
    res.cases += 1
    res.evaluations += case.evals
    for lab in case.labels:
        res.labels[lab] = res.labels.get(lab, 0) + 1
    if case.nontrivial:
        if h not in res.nontrivial_hashes:
            res.nontrivial_hashes.add(h)
            if len(res.samples) < sample_cap and (len(res.nontrivial_hashes) % 7 == 1 or len(res.samples) < 2):
                res.samples.append(json.loads(canon(spec)))


def run_shard(facet, tier, seed, shard, n_shards, known_sigs, shrink_cap_s=60.0):
    """run one shard of one facet; never raises (errors are recorded)"""
    res = ShardResult(facet.name)
    t0 = time.time()
    known_sigs = set(known_sigs)
    try:
        if facet.enumerate is not None:
            _run_enumerated(facet, tier, shard, n_shards, known_sigs, res)
        else:
            _run_hypothesis(facet, tier, seed, shard, n_shards, known_sigs, res, shrink_cap_s)
    except Exception:
        res.error = traceback.format_exc()
    res.wall_s = time.time() - t0
    return res


def _run_enumerated(facet, tier, shard, n_shards, known_sigs, res):
    for k, spec in enumerate(facet.enumerate(tier)):
        if k % n_shards != shard:
            continue
        try:
            run_one(facet, spec, known_sigs, res)
        except Violation as v:
            if v.signature not in res.violations:
                res.violations[v.signature] = {"spec": json.loads(canon(spec)), "message": v.message}
    res.exhaustive_done = True


def _run_hypothesis(facet, tier, seed, shard, n_shards, known_sigs, res, shrink_cap_s):
    import hypothesis
    from hypothesis import HealthCheck, Phase, given, settings
    from hypothesis.errors import Flaky, FlakyFailure  # noqa: F401

    n = max(1, facet.budget[tier] // n_shards)
    strat = facet.strategy(tier)
    # after the first failure the signatures found so far are treated like known ones so that the
    # search continues behind them (collect-then-shrink); each gets its own hypothesis run.
    found = {}
    for round_ in range(4):
        state = {"first_fail_t": None, "fail_cache": {}, "best": None}
        skip = known_sigs | set(found)
        sub_seed = derive_seed(seed, facet.name, shard, round_)

        @settings(max_examples=n, database=None, deadline=None, derandomize=False,
                  report_multiple_bugs=False, print_blob=False,
                  suppress_health_check=[HealthCheck.too_slow, HealthCheck.data_too_large,
                                         HealthCheck.large_base_example],
                  phases=[Phase.generate, Phase.shrink], verbosity=hypothesis.Verbosity.quiet)
        @hypothesis.seed(sub_seed)
        @given(strat)
        def test(spec):
            h = spec_hash(spec)
            if state["first_fail_t"] is not None and time.time() - state["first_fail_t"] > shrink_cap_s:
                # shrink budget used up: answer from the cache only, so the shrinker terminates quickly
                if h in state["fail_cache"]:
                    raise state["fail_cache"][h]
                return
            try:
                run_one(facet, spec, skip, res)
            except Violation as v:
                if state["first_fail_t"] is None:
                    state["first_fail_t"] = time.time()
                    state["sig"] = v.signature
                if v.signature != state["sig"]:
                    return  # shrink towards one root cause only
                state["fail_cache"][h] = v
                state["best"] = (json.loads(canon(spec)), v)
                raise

        try:
            test()
        except Violation:
            pass
        except BaseException as e:  # Flaky etc.
            if state["best"] is None:
                raise
            res.labels["hypothesis-flaky:" + type(e).__name__] = 1
        if state["best"] is None:
            break
        spec, v = state["best"]
        found[v.signature] = {"spec": spec, "message": v.message}
        # the remaining budget continues behind this root cause
    res.violations.update(found)


def guarded(name, fn):
    """wrap a check whose property says 'handled for every accepted input': an exception raised inside kappadata for a generated,
    valid input (not a documented refusal handled by the check itself) is a violation, not a harness error"""
    import traceback as _tb

    def run(spec):
        try:
            return fn(spec)
        except (Violation, Refused, CaseTimeout):
            raise
        except Exception as e:
            frames = [f for f in _tb.extract_tb(e.__traceback__) if "/kappadata/" in f.filename]
            if not frames:
                raise
            where = frames[-1].filename.split("/")[-1]
            raise Violation(f"{name}:raises:{type(e).__name__}:{where}", f"{e!r}"[:300])
    return run
