"""Dataset-stack specs: JSON-able recursive specs, the builder that turns them into real kappadata stacks and
the reference evaluation (index-map composition) computed from the spec alone.

spec node kinds
  {"t":"root","id":r,"n":n,"C":C,"bulk":"list|numpy|tensor|none","lay":k}
  {"t":"wrap","kind":"pass|tag","wid":w,"child":S}             harness KDWrapper (tag rewrites item x)
  {"t":"shipped_wrap","kind":"XTransformWrapper|LabelSmoothingWrapper|...","child":S}  identity-configured shipped wrappers
  {"t":"subset","indices":[...],"as":"list|numpy|tensor","child":S}
  {"t":"shipped_subset","kind":"ShuffleWrapper|...","args":{...},"child":S}   index list read off the instance
  {"t":"concat","children":[S..],"balanced":bool}
"""
import numpy as np
import torch
from hypothesis import strategies as st

from kappadata.datasets import KDConcatDataset, KDDataset, KDSubset, KDWrapper


def class_of(root_id, C, lay, j, n):
    """deterministic class layout of a root; a pure function of the spec"""
    if lay == 0:
        return int((j * 7 + root_id * 3 + (j * j) % 5) % C)
    if lay == 1:  # sorted blocks
        return int(min(C - 1, (j * C) // max(1, n)))
    if lay == 2:  # one dominant class, some absent
        return 0 if j % 4 else int((j // 4) % max(1, C - 1))
    return int((j + root_id) % max(1, C // 2 + 1))  # upper classes absent


class TokenRoot(KDDataset):
    """root whose samples are recognisable: x -> ('x', id, j), aux -> ('aux', id, j), class -> int"""

    def __init__(self, root_id, n, C=3, bulk="list", lay=0, needs_ctx=False):
        super().__init__()
        self.root_id, self.n, self.C, self.bulk, self.lay = root_id, n, C, bulk, lay
        self.needs_ctx = needs_ctx
        self.disposed = 0
        self.custom_attribute = ("attr", root_id)
        self.class_names = [f"c{k}" for k in range(C)]

    def __len__(self):
        return self.n

    def _norm(self, j):
        j = int(j)
        if j < 0 and self.__dict__.get("strict_neg"):
            # a dataset that computes its samples from the index (offset + idx, a file name) has no notion of negative indices
            raise IndexError(f"negative index {j} handed to a dataset without negative indexing")
        if j < 0:
            j += self.n
        if not 0 <= j < self.n:
            raise IndexError(j)
        return j

    def getitem_x(self, idx, ctx=None):
        j = self._norm(idx)
        if ctx is not None:
            ctx["root_ctx.x"] = (self.root_id, j)
        return ("x", self.root_id, j)

    def getitem_aux(self, idx, ctx=None):
        return ("aux", self.root_id, self._norm(idx))

    @property
    def requires_propagate_ctx(self):
        # a dataset can demand that a context is always handed to its loaders
        return self.needs_ctx

    def getitem_aux2(self, idx, ctx=None):
        if self.needs_ctx:
            return ("aux2", self.root_id, self._norm(idx), "ctx" if ctx is not None else "no-ctx")
        return ("aux2", self.root_id, self._norm(idx))

    def getshape_target(self):
        return (7 + self.root_id,)

    def getshape_embedding(self):
        return (3,)

    def getshape_coarse_class(self):
        # an item name that contains an underscore itself (and ends in another item's name)
        return (5 + self.root_id,)

    def getitem_class(self, idx, ctx=None):
        return class_of(self.root_id, self.C, self.lay, self._norm(idx), self.n)

    def getshape_class(self):
        return (self.C,)

    def getshape_x(self):
        return (3, self.root_id + 1, 2)

    def dispose(self):
        self.disposed += 1

    def __getattr__(self, item):
        # bulk accessors exist only when configured (hasattr must be False otherwise)
        if item.startswith("getall_") and self.__dict__.get("bulk", "none") != "none":
            what = item[len("getall_"):]
            if what in ("x", "aux", "aux2", "class"):
                return lambda: self._getall(what)
        return super().__getattr__(item)

    def _getall(self, what):
        if self.bulk == "internal":
            # the root hands out its own storage by reference: a layer above must not write into it
            store = self.__dict__.setdefault("_store", {})
            if what not in store:
                store[what] = [getattr(self, f"getitem_{what}")(j) for j in range(self.n)]
            return store[what]
        vals = [getattr(self, f"getitem_{what}")(j) for j in range(self.n)]
        if what == "class":
            if self.bulk == "numpy":
                return np.array(vals, dtype=np.int64)
            if self.bulk == "tensor":
                return torch.tensor(vals, dtype=torch.long)
        return vals


class PassWrapper(KDWrapper):
    """pass-through layer that owns a resource: dispose must reach it"""

    def dispose(self):
        self.__dict__["disposed_here"] = self.__dict__.get("disposed_here", 0) + 1
        super().dispose()


class PassWrapper2(KDWrapper):
    pass


class TagWrapper(KDWrapper):
    """rewrites item x: ('tag', wid, inner)"""

    def __init__(self, dataset, wid):
        super().__init__(dataset=dataset)
        self.wid = wid

    def getitem_x(self, idx, ctx=None):
        if ctx is not None:
            ctx[f"tag{self.wid}"] = int(idx)
        return ("tag", self.wid, self.dataset.getitem_x(idx, ctx))

    def getall_x(self):
        # a wrapper that rewrites an item has to rewrite its bulk accessor too
        return [("tag", self.wid, v) for v in self.dataset.getall_x()]


_FUSED_CACHE = {}
ALL_ITEMS = ("x", "class", "aux", "aux2")


def fused_wrapper_class(groups):
    """KDWrapper subclass declaring `groups` as jointly loaded; every loader call draws a fresh nonce, the joint loader
    stamps all members of its group with one nonce.  All items are implemented on the type (ModeWrapper requires it)."""
    key = tuple(tuple(g) for g in groups)
    if key in _FUSED_CACHE:
        return _FUSED_CACHE[key]
    member = {it: gi for gi, g in enumerate(groups) for it in g}

    def make_single(it):
        def getitem(self, idx, ctx=None):
            inner = getattr(self.dataset, f"getitem_{it}")(idx, ctx)
            if it not in member:
                return inner
            nonce = self._nonce(joint=False)
            if ctx is not None:
                ctx[f"f{self.wid}.{it}"] = int(idx)
            return ("f", self.wid, it, nonce, inner)
        return getitem

    def make_joint(g):
        def getitem(self, idx, ctx=None):
            nonce = self._nonce(joint=True)
            out = []
            for it in g:
                inner = getattr(self.dataset, f"getitem_{it}")(idx, ctx)
                if ctx is not None:
                    ctx[f"f{self.wid}.{it}"] = int(idx)
                out.append(("f", self.wid, it, nonce, inner))
            return tuple(out)
        return getitem

    def _nonce(self, joint):
        self.counter += 1
        if joint:
            self.joint_nonces.add(self.counter)
        return self.counter

    def __init__(self, dataset, wid):
        KDWrapper.__init__(self, dataset=dataset)
        self.wid, self.counter, self.joint_nonces = wid, 0, set()

    ns = {"__init__": __init__, "_nonce": _nonce,
          "fused_operations": property(lambda self: KDWrapper.fused_operations.fget(self) + [list(g) for g in groups])}
    for it in ALL_ITEMS:
        ns[f"getitem_{it}"] = make_single(it)
    for g in groups:
        ns["getitem_" + "".join(g)] = make_joint(g)
    cls = type("FusedWrapper_" + "_".join("".join(g) for g in groups), (KDWrapper,), ns)
    _FUSED_CACHE[key] = cls
    return cls


def _identity_shipped_wrapper(kind, child):
    import kappadata.wrappers as W
    if kind == "XTransformWrapper":
        return W.XTransformWrapper(dataset=child, transform=_Ident())
    if kind == "XRepeatWrapper":
        from kappadata.wrappers.sample_wrappers.x_repeat_wrapper import XRepeatWrapper
        return XRepeatWrapper(dataset=child, num_repeats=1)
    raise ValueError(kind)


class _Ident:
    def __call__(self, x, ctx=None):
        return x


SHIPPED_SUBSETS = ["ShuffleWrapper", "RepeatWrapper", "PercentFilterWrapper", "SubsetWrapper", "ClassFilterWrapper",
                   "SortByClassWrapper", "OversamplingWrapper", "FewshotWrapper"]


def _shipped_subset(kind, args, child):
    import kappadata.wrappers as W
    cls = getattr(W, kind)
    return cls(dataset=child, **args)


class ShippedCtorRefused(Exception):
    pass


class Built:
    """real object + bookkeeping the oracle needs"""

    def __init__(self, obj, layers, roots):
        self.obj, self.layers, self.roots = obj, layers, roots


def build(spec, _roots=None):
    """returns (dataset_object, ref) where ref is a Ref tree mirroring the spec with resolved index lists"""
    t = spec["t"]
    if t == "root":
        ds = TokenRoot(spec["id"], spec["n"], spec.get("C", 3), spec.get("bulk", "list"), spec.get("lay", 0), bool(spec.get("needs_ctx")))
        return ds, {"t": "root", "spec": spec, "obj": ds}
    if t == "wrap":
        c, cref = build(spec["child"])
        if spec["kind"] == "tag":
            ds = TagWrapper(c, spec["wid"])
        elif spec["kind"] == "pass2":
            ds = PassWrapper2(c)
        else:
            ds = PassWrapper(c)
        return ds, {"t": "wrap", "spec": spec, "obj": ds, "child": cref}
    if t == "fused":
        c, cref = build(spec["child"])
        ds = fused_wrapper_class(spec["groups"])(c, spec["wid"])
        return ds, {"t": "fused", "spec": spec, "obj": ds, "child": cref}
    if t == "shipped_wrap":
        c, cref = build(spec["child"])
        ds = _identity_shipped_wrapper(spec["kind"], c)
        return ds, {"t": "wrap", "spec": dict(spec, kind="pass"), "obj": ds, "child": cref}
    if t == "subset":
        c, cref = build(spec["child"])
        idx = list(spec["indices"])
        n = len(c)
        idx = [i for i in idx if -n <= i < n]
        if spec.get("as") == "numpy":
            given = np.array(idx, dtype=np.int64)
        elif spec.get("as") == "tensor":
            given = torch.tensor(idx, dtype=torch.long)
        elif spec.get("as") == "tuple":
            given = tuple(idx)
        else:
            given = idx
        ds = KDSubset(c, given)
        return ds, {"t": "subset", "spec": spec, "obj": ds, "child": cref, "indices": idx}
    if t == "shipped_subset":
        c, cref = build(spec["child"])
        try:
            ds = _shipped_subset(spec["kind"], spec.get("args", {}), c)
        except Exception as e:
            # which samples a shipped subset wrapper selects (and whether it accepts the input) is C03's business
            raise ShippedCtorRefused(f"{spec['kind']}:{type(e).__name__}")
        idx = [int(i) for i in ds.indices]
        return ds, {"t": "subset", "spec": spec, "obj": ds, "child": cref, "indices": idx}
    if t == "concat":
        parts = [build(s) for s in spec["children"]]
        ds = KDConcatDataset([p[0] for p in parts], balanced_sampling=bool(spec.get("balanced")))
        return ds, {"t": "concat", "spec": spec, "obj": ds, "children": [p[1] for p in parts]}
    raise ValueError(t)


def ref_len(ref):
    t = ref["t"]
    if t == "root":
        return ref["spec"]["n"]
    if t in ("wrap", "fused"):
        return ref_len(ref["child"])
    if t == "subset":
        return len(ref["indices"])
    if t == "concat":
        if ref["spec"].get("balanced"):
            return None
        return sum(ref_len(c) for c in ref["children"])


def ref_item(ref, item, k, ctx=None):
    """expected value of getitem_<item>(k) by composing the layers' index maps; records the expected ctx entries.
    Values of fused wrappers are ('f', wid, item, None, inner) - the nonce position is compared separately."""
    t = ref["t"]
    if t == "root":
        s = ref["spec"]
        n = s["n"]
        j = k + n if k < 0 else k
        assert 0 <= j < n, (k, n)
        if item == "class":
            return class_of(s["id"], s.get("C", 3), s.get("lay", 0), j, n)
        if item == "x" and ctx is not None:
            ctx["root_ctx.x"] = (s["id"], j)
        if item == "aux2" and s.get("needs_ctx"):
            return (item, s["id"], j, "ctx")
        return (item, s["id"], j)
    if t == "wrap":
        if ref["spec"]["kind"] == "tag" and item == "x":
            if ctx is not None:
                ctx[f"tag{ref['spec']['wid']}"] = k
            return ("tag", ref["spec"]["wid"], ref_item(ref["child"], item, k, ctx))
        return ref_item(ref["child"], item, k, ctx)
    if t == "fused":
        inner = ref_item(ref["child"], item, k, ctx)
        if any(item in g for g in ref["spec"]["groups"]):
            if ctx is not None:
                ctx[f"f{ref['spec']['wid']}.{item}"] = k
            return ("f", ref["spec"]["wid"], item, None, inner)
        return inner
    if t == "subset":
        return ref_item(ref["child"], item, ref["indices"][k], ctx)
    if t == "concat":
        parts = ref["children"]
        if ref["spec"].get("balanced"):
            p = k % len(parts)
            return ref_item(parts[p], item, (k // len(parts)) % ref_len(parts[p]), ctx)
        total = ref_len(ref)
        j = k + total if k < 0 else k
        for p in parts:
            n = ref_len(p)
            if j < n:
                return ref_item(p, item, j, ctx)
            j -= n
        raise AssertionError("index outside concat")


def is_linear(ref):
    while True:
        t = ref["t"]
        if t == "root":
            return True
        if t == "concat":
            if len(ref["children"]) != 1:
                return False
            ref = ref["children"][0]
        else:
            ref = ref["child"]


def linear_layers(ref):
    """[objects outermost-first that count as wrappers], root object  (for linear chains)"""
    out = []
    while ref["t"] != "root":
        if ref["t"] == "concat":
            ref = ref["children"][0]  # concat is transparent for introspection
            continue
        out.append(ref["obj"])
        ref = ref["child"]
    return out, ref["obj"]


def all_objects(ref, acc=None):
    """every built object of the tree (roots and layers)"""
    acc = [] if acc is None else acc
    acc.append(ref["obj"])
    if ref["t"] == "concat":
        for c in ref["children"]:
            all_objects(c, acc)
    elif ref["t"] != "root":
        all_objects(ref["child"], acc)
    return acc


def depth(spec):
    t = spec["t"]
    if t == "root":
        return 0
    if t == "concat":
        return 1 + max(depth(c) for c in spec["children"])
    return 1 + depth(spec["child"])


def kinds(spec, acc=None):
    acc = set() if acc is None else acc
    t = spec["t"]
    acc.add(t if t != "wrap" else "wrap")
    if t == "concat":
        for c in spec["children"]:
            kinds(c, acc)
    elif t != "root":
        kinds(spec["child"], acc)
    return acc


# ---------------------------------------------------------------------------------- strategies
_counter = st.shared(st.just(0))


@st.composite
def root_spec(draw, min_n=1, max_n=12, with_bulk=True):
    return {"t": "root", "id": draw(st.integers(0, 9)), "n": draw(st.integers(min_n, max_n)),
            "C": draw(st.integers(1, 5)), "lay": draw(st.integers(0, 3)),
            "bulk": draw(st.sampled_from(["list", "internal", "numpy", "tensor"])) if with_bulk else "none",
            "needs_ctx": draw(st.sampled_from([False, False, True]))}


def _size_bound(spec):
    """static upper bound of the stack's length where cheaply known (None = unknown)"""
    t = spec["t"]
    if t == "root":
        return spec["n"]
    if t in ("wrap", "shipped_wrap"):
        return _size_bound(spec["child"])
    if t == "subset":
        return len(spec["indices"])
    return None


@st.composite
def stack_spec(draw, max_depth=5, allow_balanced=True, allow_shipped=True, allow_empty=True):
    d = draw(st.integers(0, max_depth))
    return draw(_stack(d, allow_balanced, allow_shipped, allow_empty))


@st.composite
def _stack(draw, d, allow_balanced, allow_shipped, allow_empty):
    if d == 0:
        return draw(root_spec())
    kind = draw(st.sampled_from(["wrap", "wrap", "subset", "subset", "concat"] + (["shipped_subset", "shipped_wrap"]
                                                                                  if allow_shipped else [])))
    if kind == "concat":
        k = draw(st.integers(1, 3))
        kids = [draw(_stack(draw(st.integers(0, d - 1)), False, allow_shipped, False)) for _ in range(k)]
        bal = allow_balanced and draw(st.integers(0, 5)) == 0
        return {"t": "concat", "children": kids, "balanced": bal}
    child = draw(_stack(d - 1, False, allow_shipped, allow_empty and kind != "shipped_subset"))
    if kind == "wrap":
        return {"t": "wrap", "kind": draw(st.sampled_from(["pass", "pass2", "tag"])), "wid": draw(st.integers(0, 99)),
                "child": child}
    if kind == "shipped_wrap":
        return {"t": "shipped_wrap", "kind": draw(st.sampled_from(["XTransformWrapper"])), "child": child}
    if kind == "subset":
        # indices are drawn generously and clipped to the child's real length by the builder
        nb = _size_bound(child) or 12
        lo = 0 if allow_empty else 1
        if nb == 0:
            idx = []
        else:
            idx = draw(st.lists(st.integers(-nb, nb - 1), min_size=min(lo, 1), max_size=10))
            if not idx and not allow_empty:
                idx = [0]
        return {"t": "subset", "indices": idx, "as": draw(st.sampled_from(["list", "numpy", "tensor", "tuple"])), "child": child}
    sk = draw(st.sampled_from(SHIPPED_SUBSETS))
    args = {}
    if sk == "ShuffleWrapper":
        args = {"seed": draw(st.integers(0, 99))}
    elif sk == "RepeatWrapper":
        args = {"repetitions": draw(st.integers(1, 3))}
    elif sk == "PercentFilterWrapper":
        args = {"from_percent": draw(st.sampled_from([None, 0.25, 0.5])), "to_percent": draw(st.sampled_from([None, 0.75, 1.0]))}
    elif sk == "SubsetWrapper":
        args = {"start_index": draw(st.integers(0, 2)), "end_index": draw(st.sampled_from([None, 3, 5, 100]))}
    elif sk == "ClassFilterWrapper":
        args = {draw(st.sampled_from(["valid_classes", "invalid_classes"])): draw(st.lists(st.integers(0, 4), max_size=3))}
    elif sk == "OversamplingWrapper":
        args = {"mode": "multiply"}
    elif sk == "FewshotWrapper":
        args = {"num_shots": draw(st.integers(1, 3)), "seed": draw(st.integers(0, 9))}
    return {"t": "shipped_subset", "kind": sk, "args": args, "child": child}
