"""Reference model of the interleaved epoch/update/sample scheduler, written from the statements of
C04/C05/C06 (no code shared with kappadata/samplers/interleaved_sampler.py), plus the builders that turn
a JSON spec into the real sampler and into the model's own, independent main/config samplers."""
import itertools

import numpy as np
import torch
from hypothesis import strategies as st


class TagDataset(torch.utils.data.Dataset):
    def __init__(self, n, tag):
        self.n, self.tag = n, tag

    def __len__(self):
        return self.n

    def __getitem__(self, i):
        if not 0 <= i < self.n:
            raise IndexError(i)
        return (self.tag, int(i))

    def worker_init_fn(self, rank, **kwargs):
        pass


class ViewDataset(TagDataset):
    """a dataset that is itself a view of a larger one and says so through a public .dataset attribute (torch Subset, every kappadata
    wrapper): the scheduler serves the samples of the view, not of what lies underneath"""

    def __init__(self, n, tag):
        super().__init__(n, tag)
        self.dataset = TagDataset(n + 3, 1000 + tag)


class EpochSampler:
    """harness sampler: order is a permutation keyed by (key, announced epoch); logs set_epoch/__iter__"""

    def __init__(self, dataset, key):
        self.dataset = dataset
        self.key = key
        self.epoch = None
        self.log = []

    def set_epoch(self, epoch):
        self.epoch = epoch
        self.log.append(("set_epoch", int(epoch)))

    def __len__(self):
        return len(self.dataset)

    def __iter__(self):
        self.log.append(("iter", self.epoch))
        e = -1 if self.epoch is None else self.epoch
        order = np.random.default_rng([self.key, e + 1]).permutation(len(self.dataset))
        return iter(int(i) for i in order)


class PermSampler:
    """config sampler: a fixed permutation prefix (may be a strict subset of the dataset), re-iterable"""

    def __init__(self, dataset, key, take=None):
        self.dataset = dataset
        n = len(dataset)
        order = np.random.default_rng([key, 7]).permutation(n) if key is not None else np.arange(n)
        self.order = [int(i) for i in order[: n if take is None else take]]

    def __len__(self):
        return len(self.order)

    def __iter__(self):
        return iter(self.order)


def make_main_sampler(spec, ds):
    kind = spec["main_kind"]
    key = spec.get("main_key", 0)
    if kind == "seq":
        return torch.utils.data.SequentialSampler(ds)
    if kind == "kd_seq":
        from kappadata.samplers import SequentialSampler
        return SequentialSampler(ds)
    if kind == "kd_random":
        from kappadata.samplers import RandomSampler
        return RandomSampler(ds, generator=torch.Generator().manual_seed(key))
    if kind == "kd_dist":
        from kappadata.samplers import DistributedSampler
        return DistributedSampler(ds, num_replicas=1, rank=0, shuffle=True, seed=key)
    if kind == "kd_dist2":
        # rank 0 of a two-rank kappadata DistributedSampler: len(sampler) is half the dataset size (its `effective_length`
        # property reports the global length) - the scheduler works with what the sampler yields, i.e. len(sampler)
        from kappadata.samplers import DistributedSampler
        return DistributedSampler(ds, num_replicas=2, rank=0, shuffle=True, seed=key)
    if kind == "epoch":
        return EpochSampler(ds, key)
    raise ValueError(kind)


def main_size(spec):
    """size of the main dataset (== number of main indices in the scheduler's concat dataset); spec['N'] is len(main sampler)"""
    return 2 * spec["N"] if spec["main_kind"] == "kd_dist2" else spec["N"]


class FormSampler(PermSampler):
    """the same fixed order, handed out the way other legal samplers do: numpy integers, or 0-d tensors that are *views* into a tensor
    the sampler keeps (what `yield from tensor` / torch's SubsetRandomSampler over a tensor of indices produce)"""

    def __init__(self, dataset, key, take, form):
        super().__init__(dataset, key, take)
        self.form = form
        self.store = torch.tensor(self.order, dtype=torch.long) if form == "tensor" else np.array(self.order, dtype=np.int64)

    def __iter__(self):
        return iter(self.store)  # elements are views (tensor) / numpy scalars


class GrowingSampler:
    """a sampler whose length differs from pass to pass (progressive subsets): pass p serves the first 1 + (base + p) % n entries of a
    fixed order; len() always describes the pass that was started last (the first one before any iteration)"""

    def __init__(self, dataset, key, base):
        self.dataset = dataset
        n = len(dataset)
        self.order = [int(i) for i in (np.random.default_rng([key, 7]).permutation(n) if key is not None else np.arange(n))]
        self.base, self.passes = base, 0
        self.cur = self._size(0)

    def _size(self, p):
        n = len(self.order)
        return 0 if n == 0 else 1 + (self.base + p) % n

    def __len__(self):
        return self.cur

    def __iter__(self):
        self.cur = self._size(self.passes)
        self.passes += 1
        return iter(self.order[:self.cur])


def make_config_sampler(c, ds, model=False):
    form = c.get("form") or "int"
    if form == "growing":
        return GrowingSampler(ds, c.get("key"), c.get("take") or 0)
    if form in ("numpy", "tensor") and not model:
        return FormSampler(ds, c.get("key"), c.get("take"), form)
    return PermSampler(ds, c.get("key"), c.get("take"))


def tags_of(spec):
    """tag carried by the dataset of every concat part (0 = main): a config marked 'share' draws from the very dataset OBJECT of the config
    before it (e.g. a full validation pass and a quick random pass over one validation set)"""
    tags = [0]
    for k, c in enumerate(spec["configs"]):
        tags.append(tags[k] if (c.get("share") and k > 0 and c["size"] == spec["configs"][k - 1]["size"]) else k + 1)
    return tags


def build_impl(spec, start=None):
    """real InterleavedSampler for the spec; returns (sampler, main_sampler)"""
    from kappadata.samplers import InterleavedSampler, InterleavedSamplerConfig
    mk_ds = ViewDataset if spec.get("view") else TagDataset
    main_ds = mk_ds(main_size(spec), 0)
    main = make_main_sampler(spec, main_ds)
    configs = []
    tags, made = tags_of(spec), {}
    for k, c in enumerate(spec["configs"]):
        ds = made.get(tags[k + 1]) or mk_ds(c["size"], tags[k + 1])
        made[tags[k + 1]] = ds
        # 'dup': the config is listed a second time - the very same sampler object with the same fields (two configs that compare equal)
        smp = configs[k - 1].sampler if (c.get("dup") and k > 0) else make_config_sampler(c, ds)
        if spec.get("call") == "positional":
            # the documented field order of the config dataclass: sampler, every_n_epochs, every_n_updates, every_n_samples, collator,
            # batch_size
            configs.append(InterleavedSamplerConfig(smp, c.get("n_e"), c.get("n_u"), c.get("n_s"),
                                                    c.get("_collator"), c.get("batch_size")))
        else:
            configs.append(InterleavedSamplerConfig(
                sampler=smp,
                every_n_epochs=c.get("n_e"), every_n_updates=c.get("n_u"), every_n_samples=c.get("n_s"),
                batch_size=c.get("batch_size"), collator=c.get("_collator"),
            ))
    kw = {spec["budget_kind"]: spec["budget"]}
    if start:
        kw.update(start)
    drop_last = spec["drop_last"]
    if spec.get("dl_form") == "int":
        drop_last = int(drop_last)  # truthy / falsy values other than the two bool singletons
    elif spec.get("dl_form") == "np":
        drop_last = np.bool_(drop_last)
    if spec.get("call") == "positional":
        # documented order: main_sampler, batch_size, configs, drop_last, main_collator, epochs, updates, samples, start_epoch,
        # start_update, start_sample, drop_last_batch_size
        s = InterleavedSampler(main, spec["B"], configs, drop_last, spec.get("_main_collator"), kw.get("epochs"), kw.get("updates"),
                               kw.get("samples"), kw.get("start_epoch"), kw.get("start_update"), kw.get("start_sample"), spec.get("dlbs"))
    else:
        s = InterleavedSampler(main_sampler=main, batch_size=spec["B"], configs=configs, drop_last=drop_last,
                               drop_last_batch_size=spec.get("dlbs"), main_collator=spec.get("_main_collator"), **kw)
    return s, main


def reference_run(spec, max_epochs=10000):
    """Statement-derived model.  Returns dict with
    stream: list of (is_full_batch, src, local_idx)   src 0 = main, k>=1 = config k
    set_epochs: epochs announced; epoch_ends: list of (stream_pos_after_epoch_incl_side_passes, epoch, update, sample)
    """
    N, B = spec["N"], spec["B"]
    main = make_main_sampler(spec, TagDataset(main_size(spec), 0))
    cfgs = spec["configs"]
    csamplers = [make_config_sampler(c, TagDataset(c["size"], k + 1), model=True) for k, c in enumerate(cfgs)]
    kind, budget = spec["budget_kind"], spec["budget"]
    stream, set_epochs, epoch_ends, passes = [], [], [], []

    def side_pass(k):
        c = cfgs[k]
        idxs = list(csamplers[k])
        bs = c.get("batch_size") or B
        for p, i in enumerate(idxs):
            end = ((p + 1) % bs == 0) or (p + 1 == len(idxs))
            stream.append((end, k + 1, i))
        passes.append((len(stream), k + 1))

    if budget == 0:
        for k in range(len(cfgs)):
            side_pass(k)
        return dict(stream=stream, set_epochs=set_epochs, epoch_ends=epoch_ends, passes=passes)

    if spec["drop_last"]:
        u = spec.get("dlbs") or B
        spe = (N // u) * u
    else:
        spe = N
    epoch = update = sample = 0
    while True:
        if epoch > max_epochs:
            raise RuntimeError("model did not stop")
        if hasattr(main, "set_epoch"):
            main.set_epoch(epoch)
        set_epochs.append(epoch)
        order = list(itertools.islice(iter(main), spe))  # lazily, like any consumer that stops at the epoch end
        batches = [order[i:i + B] for i in range(0, len(order), B)]
        for bi, batch in enumerate(batches):
            for p, i in enumerate(batch):
                stream.append((p + 1 == len(batch), 0, int(i)))
            before = sample
            update += 1
            sample += len(batch)
            closed = bi == len(batches) - 1
            if closed:
                epoch += 1
            for k, c in enumerate(cfgs):
                due = False
                if c.get("n_e") is not None and closed and epoch % c["n_e"] == 0:
                    due = True
                if c.get("n_u") is not None and update % c["n_u"] == 0:
                    due = True
                if c.get("n_s") is not None and before // c["n_s"] < sample // c["n_s"]:
                    due = True
                if due:
                    side_pass(k)
            if closed:
                epoch_ends.append((len(stream), epoch, update, sample))
            if (kind == "epochs" and epoch == budget) or (kind == "updates" and update == budget) or \
                    (kind == "samples" and sample >= budget):
                return dict(stream=stream, set_epochs=set_epochs, epoch_ends=epoch_ends, passes=passes)


def resolve(sampler, gidx):
    """global index -> (src, local) through the scheduler's own concat dataset"""
    src, item = sampler.dataset[gidx]
    tag, local = item
    return src, tag, local


# ------------------------------------------------------------------ strategies
@st.composite
def geometry(draw, max_n=40, small=False):
    N = draw(st.integers(1, 9 if small else max_n))
    B = draw(st.one_of(st.integers(1, N), st.sampled_from([1, N, max(1, N // 2)])))
    drop_last = draw(st.booleans())
    dlbs = None
    if drop_last and draw(st.integers(0, 3)) == 0:
        m = draw(st.integers(1, max(1, N // B)))
        dlbs = m * B
    # budget: up to ~4 epochs worth
    spe = (N // (dlbs or B)) * (dlbs or B) if drop_last else N
    upe = -(-spe // B)
    kind = draw(st.sampled_from(["epochs", "updates", "samples"]))
    if kind == "epochs":
        budget = draw(st.integers(1, 4))
    elif kind == "updates":
        budget = draw(st.integers(1, 4 * upe))
    else:
        budget = draw(st.integers(1, 4 * spe))
    main_kind = draw(st.sampled_from(["seq", "epoch", "epoch", "kd_random", "kd_dist", "kd_seq", "kd_dist2"]))
    return dict(N=N, B=B, drop_last=drop_last, dlbs=dlbs, budget_kind=kind, budget=budget, main_kind=main_kind,
                main_key=draw(st.integers(0, 2 ** 16)), configs=[])


@st.composite
def config(draw, N, single_kind_only=False):
    kinds = draw(st.sets(st.sampled_from(["n_e", "n_u", "n_s"]), min_size=1, max_size=1 if single_kind_only else 3))
    c = {}
    for k in sorted(kinds):
        if k == "n_e":
            c[k] = draw(st.integers(1, 4))
        elif k == "n_u":
            c[k] = draw(st.integers(1, 12))
        else:
            c[k] = draw(st.integers(1, 3 * N))
    c["size"] = draw(st.integers(0, 7))
    c["batch_size"] = draw(st.one_of(st.none(), st.integers(1, 5)))
    c["key"] = draw(st.one_of(st.none(), st.integers(0, 999)))
    if c["size"] > 1 and draw(st.integers(0, 4)) == 0:
        c["take"] = draw(st.integers(1, c["size"]))
    # how the side sampler hands out its indices / whether its length changes between passes
    form = draw(st.sampled_from(["int", "int", "int", "numpy", "tensor", "growing"]))
    if form != "int":
        c["form"] = form
    if draw(st.integers(0, 3)) == 0:
        c["share"] = True  # takes effect when the config before it has a dataset of the same size (see full_spec)
    return c


@st.composite
def full_spec(draw, max_configs=4, small=False, allow_zero_budget=True, single_kind_only=False, min_configs=0):
    g = draw(geometry(small=small))
    n_cfg = draw(st.integers(min_configs, max_configs))
    g["configs"] = [draw(config(g["N"], single_kind_only=single_kind_only)) for _ in range(n_cfg)]
    for k in range(1, n_cfg):
        if g["configs"][k].get("share"):
            g["configs"][k]["size"] = g["configs"][k - 1]["size"]
            if "take" in g["configs"][k]:
                g["configs"][k]["take"] = min(g["configs"][k]["take"], max(1, g["configs"][k]["size"]))
    for k in range(1, n_cfg):
        if g["configs"][k - 1].get("form") != "growing" and draw(st.integers(0, 5)) == 0:
            g["configs"][k] = dict(g["configs"][k - 1], dup=True, share=True)
    if allow_zero_budget and n_cfg > 0 and draw(st.integers(0, 14)) == 0:
        g["budget"] = 0
    if draw(st.integers(0, 3)) == 0:
        g["call"] = "positional"
    form = draw(st.sampled_from([None, None, None, "int", "np"]))
    if form:
        g["dl_form"] = form
    if draw(st.integers(0, 3)) == 0:
        g["view"] = True
    return g
